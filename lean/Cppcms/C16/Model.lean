import Cppcms.Common
import Cppcms.C16.Gen
import Cppcms.C16.Spec
/-!
# C16 model: the bundled MD5 and SHA-1 state machines, `hmac`, `cbc`, `key::set_hex` as written

Every arithmetic expression, constant, table and condition comes from `Gen.lean` (regenerated
from the source on every run).  Hand-written here: the order of statements, the loops, the
buffer hand-over (`memcpy` into the fixed 64-byte arrays, which are *not* cleared by
`md5_init` / `sha1::reset`), the chunking loop and the conversion `size_t → int` at `md5_digets::append`.
-/
namespace Cppcms.C16
open Cppcms

def nats (l : List Nat) : Bytes := l.map UInt8.ofNat

/-- `memcpy(dst + off, src, src.length)` into a fixed-size array -/
def memcpy (dst : Bytes) (off : Nat) (src : Bytes) : Bytes :=
  dst.take off ++ src ++ dst.drop (off + src.length)

/-! ## MD5 (src/md5.cpp) -/

def md5Fn (round x y z : Nat) : Nat :=
  match round with
  | 0 => Gen.md5F0 x y z
  | 1 => Gen.md5F1 x y z
  | 2 => Gen.md5F2 x y z
  | _ => Gen.md5F3 x y z

def byteAt (blk : Bytes) (i : Nat) : Nat := (blk.getD i 0).toNat

/-- `X[k]` -/
def md5X (blk : Bytes) (k : Nat) : Nat :=
  Gen.md5Word (byteAt blk (4 * k)) (byteAt blk (4 * k + 1)) (byteAt blk (4 * k + 2)) (byteAt blk (4 * k + 3))

/-- one `SET(a, b, c, d, k, s, Ti)` line; registers are addressed by position in `abcd` -/
def md5Step (blk : Bytes) (r : List Nat) (st : Nat × Nat × Nat × Nat × Nat × Nat × Nat × Nat) : List Nat :=
  let (round, ra, rb, rc, rd, k, s, ti) := st
  let t := Gen.md5SetT (r.getD ra 0) (md5Fn round (r.getD rb 0) (r.getD rc 0) (r.getD rd 0)) (md5X blk k) ti
  r.set ra (Gen.md5SetA t s (r.getD rb 0))

/-- `md5_process(pms, data)` on the chaining value -/
def md5Process (abcd : List Nat) (blk : Bytes) : List Nat :=
  List.zipWith Gen.md5Acc abcd (Gen.md5Steps.foldl (md5Step blk) abcd)

structure Md5State where
  count0 : Nat
  count1 : Nat
  abcd : List Nat
  /-- `buf[64]`; never cleared, `md5_init` leaves it as it is -/
  buf : Bytes
deriving DecidableEq, Repr

/-- `md5_init`: counts and chaining value only -/
def md5Init (buf : Bytes) : Md5State := ⟨0, 0, Gen.md5Init, buf⟩

/-- `for (; left >= 64; p += 64, left -= 64) md5_process(pms, p);` — returns the chaining value and
the unconsumed rest of `p` -/
def md5Loop : Nat → List Nat → Bytes → List Nat × Bytes
  | 0, r, p => (r, p)
  | f + 1, r, p =>
    if p.length ≥ Gen.md5BlockLen then
      md5Loop f (md5Process r (p.take Gen.md5BlockLen)) (p.drop Gen.md5BlockLen)
    else (r, p)

/-- "Process full blocks" and "Process a final partial block" of `md5_append` -/
def md5Tail (s : Md5State) (p : Bytes) : Md5State :=
  let (r, rest) := md5Loop p.length s.abcd p
  if rest.length ≠ 0 then { s with abcd := r, buf := memcpy s.buf 0 rest } else { s with abcd := r }

/-- body of `md5_append` after the `nbytes <= 0` test; `data` is exactly the `nbytes` bytes -/
def md5AppendCore (s : Md5State) (data : Bytes) : Md5State :=
  let nbytes := data.length
  let offset := Gen.md5Offset s.count0
  let nbits := Gen.md5Nbits nbytes
  let c1 := (s.count1 + Gen.md5HiInc nbytes) % 2 ^ 32
  let c0 := (s.count0 + nbits) % 2 ^ 32
  let c1 := if Gen.md5Carry c0 nbits then (c1 + 1) % 2 ^ 32 else c1
  if offset ≠ 0 then
    let copy := Gen.md5Copy offset nbytes
    let buf := memcpy s.buf offset (data.take copy)
    if Gen.md5EarlyRet offset copy then ⟨c0, c1, s.abcd, buf⟩
    else md5Tail ⟨c0, c1, md5Process s.abcd buf, buf⟩ (data.drop copy)
  else md5Tail ⟨c0, c1, s.abcd, s.buf⟩ data

/-- `md5_append(pms, data, nbytes)` with `nbytes` given as the value of the C `int` (already known to
be representable): non-positive counts are ignored, otherwise the first `nbytes` bytes are used -/
def md5AppendN (s : Md5State) (data : Bytes) (nbytes : Nat) : Md5State :=
  if nbytes = 0 then s else md5AppendCore s (data.take nbytes)

/-- a call `impl::md5_append(&state_, p, n)` with `n` a `size_t`: the argument is converted to `int`;
values that come out non-positive (n ≡ 0 or ≥ 2^31 modulo 2^32) make `md5_append` return at once -/
def md5AppendInt (s : Md5State) (data : Bytes) (n : Nat) : Md5State :=
  let nb := n % 2 ^ 32
  if nb ≥ 2 ^ 31 then s else md5AppendN s data nb

/-- the `while(size > max_chunk)` loop of `md5_digets::append` and the final call (explicit fuel:
every round consumes `max_chunk` bytes) -/
def md5AppendLoop : Nat → Md5State → Bytes → Md5State
  | 0, s, _ => s
  | fuel + 1, s, d =>
    if d.length > Gen.md5MaxChunk then
      md5AppendLoop fuel (md5AppendInt s d Gen.md5MaxChunk) (d.drop Gen.md5MaxChunk)
    else md5AppendInt s d d.length

/-- `md5_digets::append(ptr, size)` (src/crypto.cpp) -/
def md5Append (s : Md5State) (data : Bytes) : Md5State := md5AppendLoop (data.length + 1) s data

def md5Count (s : Md5State) (i : Nat) : Nat := if i = 0 then s.count0 else s.count1

/-- `md5_finish` -/
def md5Finish (s : Md5State) : Bytes × Md5State :=
  let data := (List.range 8).map fun i => UInt8.ofNat (Gen.md5LenByte (md5Count s) i)
  let s1 := md5AppendN s (nats Gen.md5Pad) (Gen.md5PadLen s.count0)
  let s2 := md5AppendN s1 data 8
  ((List.range 16).map fun i => UInt8.ofNat (Gen.md5DigestByte (fun j => s2.abcd.getD j 0) i), s2)

/-- `md5_digets::readout`: `md5_finish` then `md5_init` -/
def md5Readout (s : Md5State) : Bytes × Md5State :=
  let (d, s2) := md5Finish s
  (d, md5Init s2.buf)

/-! ## SHA-1 (private/sha1.h, `sha1_digets` in src/crypto.cpp) -/

def sha1Words16 (blk : Bytes) : List Nat :=
  (List.range Gen.sha1NFirst).map fun i =>
    Gen.sha1Word (byteAt blk (i * 4 + 0)) (byteAt blk (i * 4 + 1)) (byteAt blk (i * 4 + 2)) (byteAt blk (i * 4 + 3))

/-- second loop of `process_block()`; the list holds `w[i-1], w[i-2], …` (newest first) -/
def sha1Extend : Nat → List Nat → List Nat
  | 0, w => w
  | n + 1, w => sha1Extend n (Gen.sha1Sched (w.getD 2 0) (w.getD 7 0) (w.getD 13 0) (w.getD 15 0) :: w)

def sha1W (blk : Bytes) : List Nat :=
  (sha1Extend (Gen.sha1NWords - Gen.sha1NFirst) (sha1Words16 blk).reverse).reverse

/-- body of the third loop of `process_block()` -/
def sha1Round (r : Nat × Nat × Nat × Nat × Nat) (iw : Nat × Nat) : Nat × Nat × Nat × Nat × Nat :=
  let (a, b, c, d, e) := r
  let (i, wi) := iw
  let (f, k) :=
    if i < Gen.sha1Bounds.getD 0 0 then (Gen.sha1F0 b c d, Gen.sha1K0)
    else if i < Gen.sha1Bounds.getD 1 0 then (Gen.sha1F1 b c d, Gen.sha1K1)
    else if i < Gen.sha1Bounds.getD 2 0 then (Gen.sha1F2 b c d, Gen.sha1K2)
    else (Gen.sha1F3 b c d, Gen.sha1K3)
  let temp := Gen.sha1Temp a f e k wi
  (temp, a, Gen.sha1NewC b, c, d)

/-- `sha1::process_block()` on the chaining value -/
def sha1ProcessBlock (h : List Nat) (blk : Bytes) : List Nat :=
  let (a, b, c, d, e) :=
    ((List.range Gen.sha1NWords).zip (sha1W blk)).foldl sha1Round
      (h.getD 0 0, h.getD 1 0, h.getD 2 0, h.getD 3 0, h.getD 4 0)
  List.zipWith Gen.sha1Acc h [a, b, c, d, e]

structure Sha1State where
  h : List Nat
  /-- `block_[64]`; `reset()` does not clear it -/
  block : Bytes
  idx : Nat
  /-- `byte_count_` (`std::size_t`, 64 bits on this target) -/
  byteCount : Nat
deriving DecidableEq, Repr

def sha1Reset (block : Bytes) : Sha1State := ⟨Gen.sha1Init, block, 0, 0⟩

/-- `sha1::process_byte` -/
def sha1ProcessByte (s : Sha1State) (b : UInt8) : Sha1State :=
  let block := s.block.set s.idx b
  let idx := s.idx + 1
  let bc := (s.byteCount + 1) % 2 ^ 64
  if idx = Gen.sha1BlockLen then ⟨sha1ProcessBlock s.h block, block, 0, bc⟩ else ⟨s.h, block, idx, bc⟩

/-- `sha1::process_bytes` = `sha1_digets::append` -/
def sha1Append (s : Sha1State) (data : Bytes) : Sha1State := data.foldl sha1ProcessByte s

/-- `while (block_byte_index_ != 0) process_byte(0);` with explicit fuel -/
def sha1FillToZero : Nat → Sha1State → Sha1State
  | 0, s => s
  | f + 1, s => if s.idx ≠ 0 then sha1FillToZero f (sha1ProcessByte s 0) else s

/-- `while (block_byte_index_ < lim) process_byte(0);` with explicit fuel -/
def sha1FillBelow (lim : Nat) : Nat → Sha1State → Sha1State
  | 0, s => s
  | f + 1, s => if s.idx < lim then sha1FillBelow lim f (sha1ProcessByte s 0) else s

/-- `sha1::get_digest` (state after it, whose `h` is the digest).  Fuel 64 suffices for each loop
(`Lemmas`: every iteration advances `block_byte_index_` and it is reset at 64). -/
def sha1GetDigest (s : Sha1State) : Sha1State :=
  let bitCount := Gen.sha1BitCount s.byteCount
  let s := sha1ProcessByte s (UInt8.ofNat Gen.sha1PadFirst)
  let s :=
    if s.idx > Gen.sha1PadHigh then
      sha1FillBelow Gen.sha1PadFill1 64 (sha1FillToZero 64 s)
    else sha1FillBelow Gen.sha1PadFill2 64 s
  sha1Append s (nats (Gen.sha1LenBytes bitCount))

/-- `sha1_digets::readout`: `get_digest`, `reset`, words written most significant byte first -/
def sha1Readout (s : Sha1State) : Bytes × Sha1State :=
  let s2 := sha1GetDigest s
  (nats (s2.h.flatMap Gen.sha1WordBytes), sha1Reset s2.block)

/-! ## the `message_digest` interface as a record of functions -/

structure HashObj (σ : Type) where
  /-- a newly constructed object (constructor, `clone()`) -/
  fresh : σ
  append : σ → Bytes → σ
  readout : σ → Bytes × σ
  blockSize : Nat
  digestSize : Nat

def md5Obj (buf0 : Bytes) : HashObj Md5State :=
  ⟨md5Init buf0, md5Append, md5Readout, Gen.md5BlockSize, Gen.md5DigestSize⟩

def sha1Obj (block0 : Bytes) : HashObj Sha1State :=
  ⟨sha1Reset block0, sha1Append, sha1Readout, Gen.sha1BlockSize, Gen.sha1DigestSize⟩

/-- use of one object for several messages, each fed as a list of chunks: the read-outs -/
def HashObj.session {σ : Type} (H : HashObj σ) : σ → List (List Bytes) → List Bytes
  | _, [] => []
  | s, chunks :: rest =>
    let (d, s') := H.readout (chunks.foldl H.append s)
    d :: H.session s' rest

/-! the hash functions the model computes, as iterated hashes over the *translated* compression
functions (`Props` shows they equal `Spec.md5` / `Spec.sha1`) -/

def md5Out (abcd : List Nat) : Bytes :=
  (List.range 16).map fun i => UInt8.ofNat (Gen.md5DigestByte (fun j => abcd.getD j 0) i)

def md5Hash (msg : Bytes) : Bytes := Spec.mdHash md5Process Gen.md5Init Spec.le64 md5Out msg

def sha1Out (h : List Nat) : Bytes := nats (h.flatMap Gen.sha1WordBytes)

def sha1Hash (msg : Bytes) : Bytes := Spec.mdHash sha1ProcessBlock Gen.sha1Init Spec.be64 sha1Out msg

/-! ## `hmac` (src/crypto.cpp) over any `message_digest` -/

structure HmacState (σ : Type) where
  md : σ
  mdOpad : σ
  key : Bytes

def xorPad (c : Nat) (l : Bytes) : Bytes := l.map (· ^^^ UInt8.ofNat c)

/-- `hmac::init()` -/
def hmacInit {σ : Type} (H : HashObj σ) (st : HmacState σ) : HmacState σ :=
  let bs := H.blockSize
  let zero : Bytes := List.replicate bs 0
  let (ipad, opad, md) :=
    if Gen.hmacKeyHashed st.key.length bs then
      let (dg, md') := H.readout (H.append st.md st.key)
      let ipad := memcpy zero 0 dg
      (ipad, memcpy zero 0 (ipad.take H.digestSize), md')
    else (memcpy zero 0 st.key, memcpy zero 0 st.key, st.md)
  let ipad := xorPad Gen.hmacIpad ipad
  let opad := xorPad Gen.hmacOpad opad
  let mdOpad := H.append st.mdOpad (opad.take bs)
  let md := H.append md (ipad.take bs)
  ⟨md, mdOpad, st.key⟩

/-- constructor: `md_`, `md_opad_ = md_->clone()`, `init()` -/
def hmacNew {σ : Type} (H : HashObj σ) (key : Bytes) : HmacState σ := hmacInit H ⟨H.fresh, H.fresh, key⟩

def hmacAppend {σ : Type} (H : HashObj σ) (st : HmacState σ) (d : Bytes) : HmacState σ :=
  { st with md := H.append st.md d }

/-- `hmac::readout` -/
def hmacReadout {σ : Type} (H : HashObj σ) (st : HmacState σ) : Bytes × HmacState σ :=
  let (dg, md) := H.readout st.md
  let digest := memcpy (List.replicate H.digestSize 0) 0 dg
  let (out, mdOpad) := H.readout (H.append st.mdOpad (digest.take H.digestSize))
  (out, hmacInit H ⟨md, mdOpad, st.key⟩)

def hmacObj {σ : Type} (H : HashObj σ) (key : Bytes) : HashObj (HmacState σ) :=
  ⟨hmacNew H key, hmacAppend H, hmacReadout H, H.blockSize, H.digestSize⟩

/-! ## `cbc` (src/aes.cpp, OpenSSL-backed)

The object owns two IV arrays, `iv_enc_` (slot 0) and `iv_dec_` (slot 1).  `set_iv` copies the caller's
IV into the slots listed in `Gen.cbcSetIvTargets`; `encrypt` / `decrypt` pass the slot named by
`Gen.cbcEncIvec` / `Gen.cbcDecIvec` to OpenSSL's `AES_cbc_encrypt`, which uses it as the IV **and
overwrites it in place** — that is the whole running-IV bookkeeping, so which array is passed where is
what decides whether several calls chain.  `AES_cbc_encrypt` itself is an external: the parameter
`CbcExt`, with its documented behaviour as the explicit hypothesis `CbcExt.Standard`. -/

structure CbcState (β : Type) where
  ivEnc : β
  ivDec : β

def CbcState.get {β : Type} (s : CbcState β) (slot : Nat) : β := if slot = 0 then s.ivEnc else s.ivDec

def CbcState.put {β : Type} (s : CbcState β) (slot : Nat) (v : β) : CbcState β :=
  if slot = 0 then { s with ivEnc := v } else { s with ivDec := v }

/-- `AES_cbc_encrypt(in, out, len, key, ivec, enc)` on whole blocks: `run enc ivec in = (out, ivec')` -/
structure CbcExt (β : Type) where
  run : Bool → β → List β → List β × β

/-- OpenSSL's contract (SP 800-38A chaining; `ivec` is left holding the last cipher block, unchanged
for an empty input) -/
def CbcExt.Standard {β : Type} (X : CbcExt β) (xor : β → β → β) (E D : β → β) : Prop :=
  ∀ iv bs, X.run true iv bs = (Spec.cbcEncrypt xor E iv bs, (Spec.cbcEncrypt xor E iv bs).getLastD iv) ∧
           X.run false iv bs = (Spec.cbcDecrypt xor D iv bs, bs.getLastD iv)

/-- the executable stand-in the driver uses (it satisfies `Standard` by `rfl`) -/
def osslCbc {β : Type} (xor : β → β → β) (E D : β → β) : CbcExt β :=
  ⟨fun enc iv bs =>
    if enc then (Spec.cbcEncrypt xor E iv bs, (Spec.cbcEncrypt xor E iv bs).getLastD iv)
    else (Spec.cbcDecrypt xor D iv bs, bs.getLastD iv)⟩

/-- `set_iv(ptr, 16)` on an object whose IV arrays hold `s` (all zero after construction / `reset()`) -/
def cbcSetIv {β : Type} (s : CbcState β) (iv : β) : CbcState β :=
  Gen.cbcSetIvTargets.foldl (fun st slot => st.put slot iv) s

/-- `encrypt(in, out, len)` on whole blocks -/
def cbcEncryptCall {β : Type} (X : CbcExt β) (s : CbcState β) (ps : List β) : List β × CbcState β :=
  let r := X.run Gen.cbcEncDir (s.get Gen.cbcEncIvec) ps
  (r.1, s.put Gen.cbcEncIvec r.2)

/-- `decrypt(in, out, len)` on whole blocks -/
def cbcDecryptCall {β : Type} (X : CbcExt β) (s : CbcState β) (cs : List β) : List β × CbcState β :=
  let r := X.run Gen.cbcDecDir (s.get Gen.cbcDecIvec) cs
  (r.1, s.put Gen.cbcDecIvec r.2)

/-- one call on the object -/
inductive CbcOp (β : Type) where
  | enc (ps : List β)
  | dec (cs : List β)

def CbcOp.isEnc {β : Type} : CbcOp β → Bool
  | .enc _ => true
  | .dec _ => false

def CbcOp.data {β : Type} : CbcOp β → List β
  | .enc ps => ps
  | .dec cs => cs

/-- any sequence of `encrypt` / `decrypt` calls on one object: the concatenated outputs of the encrypt
calls, the concatenated outputs of the decrypt calls, and the final state -/
def cbcRun {β : Type} (X : CbcExt β) : CbcState β → List (CbcOp β) → List β × List β × CbcState β
  | s, [] => ([], [], s)
  | s, .enc ps :: rest =>
    let r := cbcEncryptCall X s ps
    let q := cbcRun X r.2 rest
    (r.1 ++ q.1, q.2.1, q.2.2)
  | s, .dec cs :: rest =>
    let r := cbcDecryptCall X s cs
    let q := cbcRun X r.2 rest
    (q.1, r.1 ++ q.2.1, q.2.2)

/-- the inputs of the calls of one direction, concatenated -/
def cbcInputsOf {β : Type} (enc : Bool) (ops : List (CbcOp β)) : List β :=
  (ops.filter fun o => o.isEnc == enc).flatMap CbcOp.data

/-- what a use of the object ends in: `set_key` (if called), `set_iv` (if called), then `encrypt` -/
inductive CbcUse where
  | ok
  | keySize   -- `set_key`: invalid_argument "Invalid key size"
  | ivSize    -- `set_iv`: invalid_argument "Invalid IV size"
  | noKey     -- `check()`: "attempt to use cbc without key"
  | noIv      -- `check()`: "attempt to use cbc without initial vector set"
deriving DecidableEq, Repr

def cbcUse (bits : Nat) (key iv : Option Bytes) : CbcUse :=
  if (match key with | some k => k.length != Gen.cbcKeySize bits | none => false) then .keySize
  else if (match iv with | some v => v.length != Gen.cbcIvSize | none => false) then .ivSize
  else if key.isNone then .noKey
  else if iv.isNone then .noIv
  else .ok

def xorBytes (a b : Bytes) : Bytes := List.zipWith (· ^^^ ·) a b

/-! ## `key::set_hex` -/

inductive KeyResult where
  | ok (k : Bytes)
  | oddLength
  | invalidChar
deriving DecidableEq, Repr

def hexPairs : Bytes → Bytes
  | hi :: lo :: rest => UInt8.ofNat (Gen.hexByte hi.toNat lo.toNat) :: hexPairs rest
  | _ => []

def setHex (s : Bytes) : KeyResult :=
  if s.length = 0 then .ok []
  else if Gen.hexOddLen s.length then .oddLength
  else if !(s.all fun c => Gen.hexCharOk c.toNat) then .invalidChar
  else .ok (hexPairs s)

/-- `key::read_from_file` on a file with the given content (I/O errors are not modelled) -/
inductive KeyFileResult where
  | emptyFile
  | parsed (r : KeyResult)
deriving DecidableEq, Repr

def stripTrailingWs (s : Bytes) : Bytes := (s.reverse.dropWhile fun c => Gen.keyFileWs c.toNat).reverse

def readFromFile (content : Bytes) : KeyFileResult :=
  if content.length = 0 then .emptyFile else .parsed (setHex (stripTrailingWs content))

end Cppcms.C16
