import Cppcms.C16.Lemmas
import Cppcms.C16.Compress
/-!
# C16 — property theorems

"For every message, key and way of feeding the message in pieces, the MD5 and SHA-1 digests and the
HMACs built on them equal the values defined by the standards, a digest or HMAC object is ready for
a new message after each read-out; AES-CBC decryption undoes encryption on whole blocks."

`Spec.md5` is RFC 1321 transcribed independently of the source (padding, block splitting, the 64
operations with the RFC's own tables); `md5_compress_eq_rfc1321` shows that the compression function
assembled from the translated `SET(...)` lines, `T1..T64`, `F/G/H/I` and `ROTATE_LEFT` is that
function.  Likewise `Spec.sha1` is FIPS 180-4 transcribed independently, and
`sha1_compress_eq_fips180` ties the translated `sha1::process_block()` to it (on 32-bit words: the
source rotates with `^` and writes Ch/Maj with `|`, which agree with the standard's `∨`/`⊕` there).
SHA-2 and the AES block function are OpenSSL's: they enter as the abstract lawful digest `H`
(`hmac_eq_rfc2104`) and the abstract block permutation `E`/`D` (`cbc_*`).
-/
namespace Cppcms.C16.Props
open Cppcms Cppcms.C16

/-! ## MD5 -/

/-- the bundled MD5 object is a lawful streaming implementation of `md5Hash` for appends of any length,
whatever the 64-byte buffer contained when it was constructed -/
def md5Laws (buf0 : Bytes) (h : buf0.length = 64) : HashLaws (md5Obj buf0) md5Hash (fun _ => True) where
  rep := Md5Inv
  fresh := md5Init_inv buf0 h
  append := fun s m d hi _ => md5Append_inv s m d hi
  readout := fun s m hi => md5Readout_spec s m hi
  digest_len := fun m => by simp [md5Hash, Spec.mdHash, md5Out]; rfl
  digest_le_block := by show Gen.md5DigestSize ≤ Gen.md5BlockSize; decide
  block_ok := trivial
  ok_mono := fun _ _ _ _ => trivial

/-- `md5_process` as translated (64 `SET` lines, `T1..T64`, `F/G/H/I`, `ROTATE_LEFT`, the byte-to-word
expression, the final additions) is the compression function of RFC 1321 §3.4 -/
theorem md5_compress_eq_rfc1321 (a b c d : Nat) (blk : Bytes) :
    md5Process [a, b, c, d] blk = Spec.md5Compress [a, b, c, d] blk :=
  md5Process_eq a b c d blk

theorem md5Hash_eq : md5Hash = Spec.md5 := funext md5Hash_eq_spec

/-- every way of feeding a message to a fresh (or re-initialised) MD5 object gives the RFC 1321 MD5 of
the concatenation, independent of stale buffer content -/
theorem md5_stream_eq_spec (buf0 : Bytes) (h : buf0.length = 64) (chunks : List Bytes) :
    (md5Readout (chunks.foldl md5Append (md5Init buf0))).1 = Spec.md5 chunks.flatten := by
  have := (md5Laws buf0 h).foldl chunks _ [] (md5Laws buf0 h).fresh (fun _ _ => trivial)
  rw [← md5Hash_eq]
  exact ((md5Laws buf0 h).readout _ _ this).1

/-- reuse after read-out: one object, any number of messages, each fed in any pieces -/
theorem md5_session_eq_spec (buf0 : Bytes) (h : buf0.length = 64) (msgs : List (List Bytes)) :
    (md5Obj buf0).session (md5Obj buf0).fresh msgs = msgs.map fun cs => Spec.md5 cs.flatten := by
  rw [← md5Hash_eq]
  exact (md5Laws buf0 h).session msgs _ (md5Laws buf0 h).fresh (fun _ _ _ _ => trivial)

/-- D14 (found while building this check, fixed in /repo by "fix: md5 message_digest::append feeds inputs
longer than INT_MAX in pieces"): `md5_append` itself still takes an `int`; a call with a count of
2^31 is ignored.  `md5_digets::append` as found passed `size_t size` straight to it, so a single
append of 2^31 bytes vanished; it now loops over pieces of `Gen.md5MaxChunk` bytes and the theorems
above carry no bound on the chunk length any more. -/
theorem md5_append_int_truncation (s : Md5State) (d : Bytes) : md5AppendInt s d (2 ^ 31) = s := by
  simp [md5AppendInt]

example : Gen.md5MaxChunk < 2 ^ 31 ∧ 0 < Gen.md5MaxChunk := by decide

/-! ## SHA-1 -/

theorem and255 (x : Nat) : x &&& 255 = x % 256 := Nat.and_two_pow_sub_one_eq_mod x 8

/-- D6 (DESIGN.md §6, fixed in /repo by "fix: sha1 get_digest appends the full 64-bit message bit
count"): the eight length bytes `get_digest` appends are the big-endian 64-bit bit count.  As found,
the first four were constant zero and this was provable only for `bc < 2^32`, i.e. messages shorter
than 2^29 bytes; the check then reported the 2^29-byte witness kept in gen/corpus/C16. -/
theorem sha1_len_bytes_eq_be64 (bc : Nat) :
    nats (Gen.sha1LenBytes bc) = Spec.be64 bc := by
  have hr : List.range 8 = [0, 1, 2, 3, 4, 5, 6, 7] := by decide
  simp only [Gen.sha1LenBytes, nats, Spec.be64, Spec.le64, hr, List.map_cons, List.map_nil, List.reverse_cons,
    List.reverse_nil, List.nil_append, List.cons_append, and255, Nat.shiftRight_eq_div_pow]
  simp only [List.cons.injEq, and_true]
  refine ⟨?_, ?_, ?_, ?_, ?_, ?_, ?_, ?_⟩ <;> congr 1 <;> simp <;> omega

/-- the witness of D6 at the level of the length encoding: for the bit count 2^32 (a message of 2^29
bytes) the fifth-from-last byte must be 1 — the unfixed code emitted 0 there -/
example : nats (Gen.sha1LenBytes (Gen.sha1BitCount (2 ^ 29))) = [0, 0, 0, 1, 0, 0, 0, 0] := by decide

theorem sha1_hlen (m : Bytes) :
    nats (Gen.sha1LenBytes (Gen.sha1BitCount (m.length % 2 ^ 64))) = Spec.be64 (8 * m.length % 2 ^ 64) := by
  have e2 : Gen.sha1BitCount (m.length % 2 ^ 64) = 8 * m.length % 2 ^ 64 := by
    simp only [Gen.sha1BitCount]; omega
  rw [e2]
  exact sha1_len_bytes_eq_be64 _

/-- the bundled SHA-1 object is a lawful streaming implementation of `sha1Hash` -/
def sha1Laws (block0 : Bytes) (h : block0.length = 64) : HashLaws (sha1Obj block0) sha1Hash (fun _ => True) where
  rep := Sha1Inv
  fresh := sha1Reset_inv block0 h
  append := fun s m d hi _ => sha1Append_inv d s m hi
  readout := fun s m hi => sha1Readout_spec s m hi (sha1_hlen m)
  digest_len := fun m => by
    have h5 := absorb_preserves (fun st : List Nat => st.length = 5) sha1ProcessBlock
      (fun st blk hs => by simp [sha1ProcessBlock, hs]) Gen.sha1Init (Spec.pad Spec.be64 m) rfl
    simp only [sha1Hash, Spec.mdHash, sha1Out, nats, List.length_map]
    generalize Spec.absorb sha1ProcessBlock Gen.sha1Init (Spec.pad Spec.be64 m) = st at h5
    match st, h5 with
    | [a, b, c, d, e], _ => rfl
  digest_le_block := by show Gen.sha1DigestSize ≤ Gen.sha1BlockSize; decide
  block_ok := trivial
  ok_mono := fun _ _ _ _ => trivial

/-- `sha1::process_block()` as translated (byte-to-word lines, schedule, the four f/k arms, rotates,
final additions) is the compression function of FIPS 180-4 §6.1.2 on chaining values of 32-bit words -/
theorem sha1_compress_eq_fips180 (h0 h1 h2 h3 h4 : Nat) (blk : Bytes)
    (hw : h0 < 2 ^ 32 ∧ h1 < 2 ^ 32 ∧ h2 < 2 ^ 32 ∧ h3 < 2 ^ 32 ∧ h4 < 2 ^ 32) :
    sha1ProcessBlock [h0, h1, h2, h3, h4] blk = Spec.sha1Compress [h0, h1, h2, h3, h4] blk :=
  sha1ProcessBlock_eq h0 h1 h2 h3 h4 blk hw

example : (0x67452301 : Nat) < 2 ^ 32 ∧ (0xefcdab89 : Nat) < 2 ^ 32 := by decide

theorem sha1Hash_eq : sha1Hash = Spec.sha1 := funext sha1Hash_eq_spec

/-- every way of feeding a message to a fresh (or re-initialised) SHA-1 object gives the FIPS 180-4
SHA-1 of the concatenation (bit length taken modulo 2^64, as `Spec.pad` does beyond the standard's
domain), independent of stale block content -/
theorem sha1_stream_eq_spec (block0 : Bytes) (h : block0.length = 64) (chunks : List Bytes) :
    (sha1Readout (chunks.foldl sha1Append (sha1Reset block0))).1 = Spec.sha1 chunks.flatten := by
  have hi := sha1_foldl_inv chunks _ [] (sha1Reset_inv block0 h)
  rw [List.nil_append] at hi
  rw [← sha1Hash_eq]
  exact (sha1Readout_spec _ _ hi (sha1_hlen _)).1

theorem sha1_session_eq_spec (block0 : Bytes) (h : block0.length = 64) (msgs : List (List Bytes)) :
    (sha1Obj block0).session (sha1Obj block0).fresh msgs = msgs.map fun cs => Spec.sha1 cs.flatten := by
  rw [← sha1Hash_eq]
  exact (sha1Laws block0 h).session msgs _ (sha1Laws block0 h).fresh (fun _ _ _ _ => trivial)

/-! ## exact domains

`Spec.pad` (and both state machines) carry the bit length modulo 2^64.  RFC 1321 §3.2 defines MD5 that way
for every length.  FIPS 180-4 defines SHA-1 only for messages of fewer than 2^64 bits, i.e. **fewer than
2^61 bytes**: exactly there the length field holds the true bit length and `sha1_stream_eq_spec` is a
statement about the standard's SHA-1; from 2^61 bytes on it says that code and `Spec.sha1` agree on the
wrapped length (a convention, not the standard). -/

theorem beVal_be64 (n : Nat) : Spec.beVal (Spec.be64 n) = n % 2 ^ 64 := by
  have hr : List.range 8 = [0, 1, 2, 3, 4, 5, 6, 7] := by decide
  simp only [Spec.beVal, Spec.be64, Spec.le64, hr, List.map_cons, List.map_nil, List.reverse_cons, List.reverse_nil,
    List.nil_append, List.cons_append, List.foldl_cons, List.foldl_nil]
  simp only [UInt8.toNat_ofNat', Nat.reducePow, Nat.pow_zero, Nat.div_one, Nat.mod_mod]
  have h7 : n % 18446744073709551616 = (n / 72057594037927936 % 256) * 72057594037927936 + n % 72057594037927936 := by omega
  have h6 : n % 72057594037927936 = (n / 281474976710656 % 256) * 281474976710656 + n % 281474976710656 := by omega
  have h5 : n % 281474976710656 = (n / 1099511627776 % 256) * 1099511627776 + n % 1099511627776 := by omega
  have h4 : n % 1099511627776 = (n / 4294967296 % 256) * 4294967296 + n % 4294967296 := by omega
  have h3 : n % 4294967296 = (n / 16777216 % 256) * 16777216 + n % 16777216 := by omega
  have h2 : n % 16777216 = (n / 65536 % 256) * 65536 + n % 65536 := by omega
  have h1 : n % 65536 = (n / 256 % 256) * 256 + n % 256 := by omega
  generalize n / 72057594037927936 % 256 = b7 at *
  generalize n / 281474976710656 % 256 = b6 at *
  generalize n / 1099511627776 % 256 = b5 at *
  generalize n / 4294967296 % 256 = b4 at *
  generalize n / 16777216 % 256 = b3 at *
  generalize n / 65536 % 256 = b2 at *
  generalize n / 256 % 256 = b1 at *
  generalize n % 256 = b0 at *
  generalize n % 65536 = r1 at *
  generalize n % 16777216 = r2 at *
  generalize n % 4294967296 = r3 at *
  generalize n % 1099511627776 = r4 at *
  generalize n % 281474976710656 = r5 at *
  generalize n % 72057594037927936 = r6 at *
  generalize n % 18446744073709551616 = r7 at *
  omega

theorem length_field_exact_domain (L : Nat) (h : L < 2 ^ 61) :
    Spec.beVal (Spec.be64 (8 * L % 2 ^ 64)) = 8 * L ∧ Spec.leVal (Spec.le64 (8 * L % 2 ^ 64)) = 8 * L ∧
    Gen.sha1BitCount (L % 2 ^ 64) = 8 * L ∧ Spec.beVal (nats (Gen.sha1LenBytes (Gen.sha1BitCount (L % 2 ^ 64)))) = 8 * L := by
  have e : Gen.sha1BitCount (L % 2 ^ 64) = 8 * L := by simp only [Gen.sha1BitCount]; omega
  have b : Spec.beVal (Spec.be64 (8 * L % 2 ^ 64)) = 8 * L := by rw [beVal_be64]; omega
  refine ⟨b, ?_, e, ?_⟩
  · have : (Spec.le64 (8 * L % 2 ^ 64)).reverse = Spec.be64 (8 * L % 2 ^ 64) := rfl
    rw [Spec.leVal, this, b]
  · rw [e, sha1_len_bytes_eq_be64, beVal_be64]; omega

/-- the first length outside the domain: 2^61 bytes = 2^64 bits wraps to a zero length field -/
example : Gen.sha1BitCount (2 ^ 61 % 2 ^ 64) = 0 ∧ Spec.be64 (8 * 2 ^ 61 % 2 ^ 64) = [0, 0, 0, 0, 0, 0, 0, 0] := by decide
example : (2 ^ 29 : Nat) < 2 ^ 61 := by decide

/-! ## HMAC -/

/-- RFC 2104 for every lawful streaming digest: any key (hashed first iff longer than the block), any
chunking, any number of messages on one object -/
theorem hmac_eq_rfc2104 {σ : Type} (H : HashObj σ) (hash : Bytes → Bytes) (ok : Nat → Prop) (L : HashLaws H hash ok)
    (key : Bytes) (hk : ok key.length) (msgs : List (List Bytes)) (hc : ∀ cs ∈ msgs, ∀ c ∈ cs, ok c.length) :
    (hmacObj H key).session (hmacNew H key) msgs = msgs.map fun cs => Spec.hmac hash H.blockSize key cs.flatten :=
  (hmacLaws L key hk).session msgs _ (hmacLaws L key hk).fresh hc

theorem hmac_md5_eq_rfc2104 (buf0 : Bytes) (h : buf0.length = 64) (key : Bytes) (msgs : List (List Bytes)) :
    (hmacObj (md5Obj buf0) key).session (hmacNew (md5Obj buf0) key) msgs =
      msgs.map fun cs => Spec.hmac Spec.md5 64 key cs.flatten := by
  rw [← md5Hash_eq]
  exact hmac_eq_rfc2104 _ _ _ (md5Laws buf0 h) key trivial msgs (fun _ _ _ _ => trivial)

theorem hmac_sha1_eq_rfc2104 (block0 : Bytes) (h : block0.length = 64) (key : Bytes) (msgs : List (List Bytes)) :
    (hmacObj (sha1Obj block0) key).session (hmacNew (sha1Obj block0) key) msgs =
      msgs.map fun cs => Spec.hmac Spec.sha1 64 key cs.flatten := by
  rw [← sha1Hash_eq]
  exact hmac_eq_rfc2104 _ _ _ (sha1Laws block0 h) key trivial msgs (fun _ _ _ _ => trivial)

/-! ## CBC -/

/-- the external's contract is satisfiable: the stand-in the driver runs meets it -/
theorem osslCbc_standard {β : Type} (xor : β → β → β) (E D : β → β) : (osslCbc xor E D).Standard xor E D :=
  fun _ _ => ⟨rfl, rfl⟩

/-- **Any split of the data into whole-block pieces across calls gives the same result as one call**, for
`encrypt` and for `decrypt`, from any state of the object — outputs and the IV state left behind.
Depends on the translated facts that `encrypt` hands `iv_enc_` and `decrypt` hands `iv_dec_` (members,
not copies) to `AES_cbc_encrypt`. -/
theorem cbc_multi_call_eq_single_call {β : Type} (X : CbcExt β) (xor : β → β → β) (E D : β → β)
    (hX : X.Standard xor E D) (s : CbcState β) (pss css : List (List β)) :
    cbcRun X s (pss.map CbcOp.enc) = cbcRun X s [CbcOp.enc pss.flatten] ∧
    cbcRun X s (css.map CbcOp.dec) = cbcRun X s [CbcOp.dec css.flatten] := by
  have e1 := cbcInputsOf_map_enc pss
  have e2 := cbcInputsOf_map_dec css
  have f1 := cbcInputsOf_map_enc [pss.flatten]
  have f2 := cbcInputsOf_map_dec [css.flatten]
  simp only [List.map_cons, List.map_nil, List.flatten_cons, List.flatten_nil, List.append_nil] at f1 f2
  constructor
  · rw [cbcRun_spec hX, cbcRun_spec hX, e1.1, e1.2, f1.1, f1.2]
  · rw [cbcRun_spec hX, cbcRun_spec hX, e2.1, e2.2, f2.1, f2.2]

/-- any interleaving of `encrypt` and `decrypt` calls on one object after `set_iv`: the encrypt calls
together produce the CBC encryption of their concatenated inputs from that IV, the decrypt calls the CBC
decryption of theirs — the two directions do not disturb each other (`set_iv` fills both arrays,
each direction updates only its own) -/
theorem cbc_interleaved_calls {β : Type} (X : CbcExt β) (xor : β → β → β) (E D : β → β)
    (hX : X.Standard xor E D) (s0 : CbcState β) (iv : β) (ops : List (CbcOp β)) :
    (cbcRun X (cbcSetIv s0 iv) ops).1 = Spec.cbcEncrypt xor E iv (cbcInputsOf true ops) ∧
    (cbcRun X (cbcSetIv s0 iv) ops).2.1 = Spec.cbcDecrypt xor D iv (cbcInputsOf false ops) := by
  rw [cbcRun_spec hX, cbcSetIv_eq]
  exact ⟨rfl, rfl⟩

/-- decryption undoes encryption however sender and receiver cut the stream into calls -/
theorem cbc_dec_enc {β : Type} (W : β → Prop) (X : CbcExt β) (xor : β → β → β) (E D : β → β)
    (L : CbcLaws W xor E D) (hX : X.Standard xor E D) (sA sB : CbcState β)
    (iv : β) (hiv : W iv) (pss css : List (List β)) (hps : ∀ p ∈ pss.flatten, W p)
    (hsame : css.flatten = (cbcRun X (cbcSetIv sA iv) (pss.map CbcOp.enc)).1) :
    (cbcRun X (cbcSetIv sB iv) (css.map CbcOp.dec)).2.1 = pss.flatten := by
  rw [(cbc_interleaved_calls X xor E D hX sA iv _).1, (cbcInputsOf_map_enc pss).1] at hsame
  rw [(cbc_interleaved_calls X xor E D hX sB iv _).2, (cbcInputsOf_map_dec css).1, hsame]
  exact cbcDecrypt_cbcEncrypt L _ iv hiv hps

/-- what `aes_cipher` relies on (C05): a receiver whose IV differs (it uses `set_nonce_iv`, two unrelated
random arrays) loses only the first block -/
theorem cbc_first_block_trick {β : Type} (W : β → Prop) (X : CbcExt β) (xor : β → β → β) (E D : β → β)
    (L : CbcLaws W xor E D) (hX : X.Standard xor E D) (sA sB : CbcState β)
    (iv iv' z : β) (bs : List β) (hiv : W iv) (hz : W z) (hbs : ∀ p ∈ bs, W p) (css : List (List β))
    (hsame : css.flatten = (cbcRun X (cbcSetIv sA iv) [CbcOp.enc (z :: bs)]).1) :
    ((cbcRun X (cbcSetIv sB iv') (css.map CbcOp.dec)).2.1).tail = bs := by
  have h1 := (cbc_interleaved_calls X xor E D hX sA iv [CbcOp.enc (z :: bs)]).1
  have hin : cbcInputsOf true [CbcOp.enc (z :: bs)] = z :: bs := by
    have := (cbcInputsOf_map_enc [z :: bs]).1
    simpa using this
  rw [h1, hin] at hsame
  rw [(cbc_interleaved_calls X xor E D hX sB iv' _).2, (cbcInputsOf_map_dec css).1, hsame]
  simp only [Spec.cbcEncrypt, Spec.cbcDecrypt, List.tail_cons]
  exact cbcDecrypt_cbcEncrypt L bs _ (L.enc_wf _ (L.xor_wf _ _ hz hiv)) hbs

/-- non-vacuity, and the shape in which the driver uses the model: 16-byte strings, bytewise xor, a
length-preserving block function with an inverse (here: add / subtract 1 in every byte) -/
example : CbcLaws (fun b : Bytes => b.length = 16) xorBytes (fun b => b.map (· + 1)) (fun b => b.map (· - 1)) :=
  cbcLaws_bytes16 _ _ (fun x hx => by simpa using hx) (fun x _ => by
    simp only [List.map_map]
    have : ((fun x : UInt8 => x - 1) ∘ fun x => x + 1) = id := by
      funext y; simp
    rw [this, List.map_id])

/-! ## hexadecimal keys -/

theorem key_hex_strict (s : Bytes) :
    (∀ k, setHex s = .ok k ↔ (s.length % 2 = 0 ∧ Spec.fromHex s = some k)) ∧
    (setHex s = .oddLength ↔ s.length % 2 = 1) ∧
    (setHex s = .invalidChar ↔ (s.length % 2 = 0 ∧ Spec.fromHex s = none)) := by
  have hodd : Gen.hexOddLen s.length = decide (s.length % 2 ≠ 0) := by
    simp [Gen.hexOddLen]
  unfold setHex
  by_cases h0 : s.length = 0
  · have : s = [] := List.eq_nil_of_length_eq_zero h0
    subst this
    simp [Spec.fromHex, eq_comm]
  · rw [if_neg h0, hodd]
    by_cases hpar : s.length % 2 = 0
    · have hp := hexPairs_spec s hpar
      simp only [hpar, ne_eq, not_true_eq_false, decide_false, Bool.false_eq_true, if_false]
      cases hall : (s.all fun c => Gen.hexCharOk c.toNat)
      · simp [hp.2 hall]
      · simp [hp.1 hall, eq_comm]
    · have : s.length % 2 = 1 := by omega
      simp [this]

/-- `key::read_from_file`, by content of the file: an empty file is refused; otherwise trailing blanks, tabs
and line ends are dropped (`Spec.rstrip`: the longest prefix not ending in white space) and the rest goes
through `set_hex` — so a key is accepted exactly when that rest is an even number of hex digits, white
space anywhere else (leading, between digits) is an invalid character, and a file of white space only
yields the empty key (set_hex's `len == 0` case; the session layer refuses empty keys later) -/
theorem key_file_strict (content : Bytes) :
    (readFromFile content = .emptyFile ↔ content = []) ∧
    (∀ k, readFromFile content = .parsed (.ok k) ↔
      (content ≠ [] ∧ (Spec.rstrip content).length % 2 = 0 ∧ Spec.fromHex (Spec.rstrip content) = some k)) ∧
    (readFromFile content = .parsed .oddLength ↔ (content ≠ [] ∧ (Spec.rstrip content).length % 2 = 1)) ∧
    (readFromFile content = .parsed .invalidChar ↔
      (content ≠ [] ∧ (Spec.rstrip content).length % 2 = 0 ∧ Spec.fromHex (Spec.rstrip content) = none)) ∧
    (∃ ws, content = Spec.rstrip content ++ ws ∧ ws.all Spec.isWs = true) ∧
    (∀ x, (Spec.rstrip content).getLast? = some x → Spec.isWs x = false) := by
  obtain ⟨hk, ho, hi⟩ := key_hex_strict (Spec.rstrip content)
  refine ⟨?_, ?_, ?_, ?_, rstrip_append_ws content, rstrip_last_not_ws content⟩
  all_goals
    unfold readFromFile
    rw [stripTrailingWs_eq]
    cases content with
    | nil => simp
    | cons c rest => simp [hk, ho, hi]

example : readFromFile [0x30, 0x61, 0x0d, 0x0a] = .parsed (.ok [0x0a]) := by decide
example : readFromFile [0x20, 0x0a] = .parsed (.ok []) := by decide
example : readFromFile [0x30, 0x20, 0x61, 0x31] = .parsed .invalidChar := by decide
example : readFromFile [0x30, 0x20, 0x61] = .parsed .oddLength := by decide
example : readFromFile [] = .emptyFile := by decide

/-! ## test vectors — tests of my reading of the standards (`Spec`), not part of the property -/

-- RFC 1321 A.5
example : Spec.md5 [] = [212, 29, 140, 217, 143, 0, 178, 4, 233, 128, 9, 152, 236, 248, 66, 126] := by decide +kernel  -- d41d8cd98f00b204e9800998ecf8427e
example : Spec.md5 [97] = [12, 193, 117, 185, 192, 241, 182, 168, 49, 195, 153, 226, 105, 119, 38, 97] := by decide +kernel  -- 0cc175b9c0f1b6a831c399e269772661
example : Spec.md5 [97, 98, 99] = [144, 1, 80, 152, 60, 210, 79, 176, 214, 150, 63, 125, 40, 225, 127, 114] := by decide +kernel  -- 900150983cd24fb0d6963f7d28e17f72
example : Spec.md5 [109, 101, 115, 115, 97, 103, 101, 32, 100, 105, 103, 101, 115, 116] = [249, 107, 105, 125, 124, 183, 147, 141, 82, 90, 47, 49, 170, 241, 97, 208] := by decide +kernel  -- f96b697d7cb7938d525a2f31aaf161d0
example : Spec.md5 [97, 98, 99, 100, 101, 102, 103, 104, 105, 106, 107, 108, 109, 110, 111, 112, 113, 114, 115, 116, 117, 118, 119, 120, 121, 122] = [195, 252, 211, 215, 97, 146, 228, 0, 125, 251, 73, 108, 202, 103, 225, 59] := by decide +kernel  -- c3fcd3d76192e4007dfb496cca67e13b
example : Spec.md5 [65, 66, 67, 68, 69, 70, 71, 72, 73, 74, 75, 76, 77, 78, 79, 80, 81, 82, 83, 84, 85, 86, 87, 88, 89, 90, 97, 98, 99, 100, 101, 102, 103, 104, 105, 106, 107, 108, 109, 110, 111, 112, 113, 114, 115, 116, 117, 118, 119, 120, 121, 122, 48, 49, 50, 51, 52, 53, 54, 55, 56, 57] = [209, 116, 171, 152, 210, 119, 217, 245, 165, 97, 28, 44, 159, 65, 157, 159] := by decide +kernel  -- d174ab98d277d9f5a5611c2c9f419d9f
example : Spec.md5 [49, 50, 51, 52, 53, 54, 55, 56, 57, 48, 49, 50, 51, 52, 53, 54, 55, 56, 57, 48, 49, 50, 51, 52, 53, 54, 55, 56, 57, 48, 49, 50, 51, 52, 53, 54, 55, 56, 57, 48, 49, 50, 51, 52, 53, 54, 55, 56, 57, 48, 49, 50, 51, 52, 53, 54, 55, 56, 57, 48, 49, 50, 51, 52, 53, 54, 55, 56, 57, 48, 49, 50, 51, 52, 53, 54, 55, 56, 57, 48] = [87, 237, 244, 162, 43, 227, 201, 85, 172, 73, 218, 46, 33, 7, 182, 122] := by decide +kernel  -- 57edf4a22be3c955ac49da2e2107b67a
-- FIPS 180 examples
example : Spec.sha1 [97, 98, 99] = [169, 153, 62, 54, 71, 6, 129, 106, 186, 62, 37, 113, 120, 80, 194, 108, 156, 208, 216, 157] := by decide +kernel  -- a9993e364706816aba3e25717850c26c9cd0d89d
example : Spec.sha1 [97, 98, 99, 100, 98, 99, 100, 101, 99, 100, 101, 102, 100, 101, 102, 103, 101, 102, 103, 104, 102, 103, 104, 105, 103, 104, 105, 106, 104, 105, 106, 107, 105, 106, 107, 108, 106, 107, 108, 109, 107, 108, 109, 110, 108, 109, 110, 111, 109, 110, 111, 112, 110, 111, 112, 113] = [132, 152, 62, 68, 28, 59, 210, 110, 186, 174, 74, 161, 249, 81, 41, 229, 229, 70, 112, 241] := by decide +kernel  -- 84983e441c3bd26ebaae4aa1f95129e5e54670f1
-- RFC 2202 (test cases 1, 2 and 6: key longer than the block)
example : Spec.hmac Spec.md5 64 [11, 11, 11, 11, 11, 11, 11, 11, 11, 11, 11, 11, 11, 11, 11, 11] [72, 105, 32, 84, 104, 101, 114, 101] = [146, 148, 114, 122, 54, 56, 187, 28, 19, 244, 142, 248, 21, 139, 252, 157] := by decide +kernel
example : Spec.hmac Spec.md5 64 [74, 101, 102, 101] [119, 104, 97, 116, 32, 100, 111, 32, 121, 97, 32, 119, 97, 110, 116, 32, 102, 111, 114, 32, 110, 111, 116, 104, 105, 110, 103, 63] = [117, 12, 120, 62, 106, 176, 181, 3, 234, 168, 110, 49, 10, 93, 183, 56] := by decide +kernel
example : Spec.hmac Spec.md5 64 [170, 170, 170, 170, 170, 170, 170, 170, 170, 170, 170, 170, 170, 170, 170, 170, 170, 170, 170, 170, 170, 170, 170, 170, 170, 170, 170, 170, 170, 170, 170, 170, 170, 170, 170, 170, 170, 170, 170, 170, 170, 170, 170, 170, 170, 170, 170, 170, 170, 170, 170, 170, 170, 170, 170, 170, 170, 170, 170, 170, 170, 170, 170, 170, 170, 170, 170, 170, 170, 170, 170, 170, 170, 170, 170, 170, 170, 170, 170, 170] [84, 101, 115, 116, 32, 85, 115, 105, 110, 103, 32, 76, 97, 114, 103, 101, 114, 32, 84, 104, 97, 110, 32, 66, 108, 111, 99, 107, 45, 83, 105, 122, 101, 32, 75, 101, 121, 32, 45, 32, 72, 97, 115, 104, 32, 75, 101, 121, 32, 70, 105, 114, 115, 116] = [107, 26, 183, 254, 75, 215, 191, 143, 11, 98, 230, 206, 97, 185, 208, 205] := by decide +kernel
example : Spec.hmac Spec.sha1 64 [11, 11, 11, 11, 11, 11, 11, 11, 11, 11, 11, 11, 11, 11, 11, 11, 11, 11, 11, 11] [72, 105, 32, 84, 104, 101, 114, 101] = [182, 23, 49, 134, 85, 5, 114, 100, 226, 139, 192, 182, 251, 55, 140, 142, 241, 70, 190, 0] := by decide +kernel
example : Spec.hmac Spec.sha1 64 [74, 101, 102, 101] [119, 104, 97, 116, 32, 100, 111, 32, 121, 97, 32, 119, 97, 110, 116, 32, 102, 111, 114, 32, 110, 111, 116, 104, 105, 110, 103, 63] = [239, 252, 223, 106, 229, 235, 47, 162, 210, 116, 22, 213, 241, 132, 223, 156, 37, 154, 124, 121] := by decide +kernel
example : Spec.hmac Spec.sha1 64 [170, 170, 170, 170, 170, 170, 170, 170, 170, 170, 170, 170, 170, 170, 170, 170, 170, 170, 170, 170, 170, 170, 170, 170, 170, 170, 170, 170, 170, 170, 170, 170, 170, 170, 170, 170, 170, 170, 170, 170, 170, 170, 170, 170, 170, 170, 170, 170, 170, 170, 170, 170, 170, 170, 170, 170, 170, 170, 170, 170, 170, 170, 170, 170, 170, 170, 170, 170, 170, 170, 170, 170, 170, 170, 170, 170, 170, 170, 170, 170] [84, 101, 115, 116, 32, 85, 115, 105, 110, 103, 32, 76, 97, 114, 103, 101, 114, 32, 84, 104, 97, 110, 32, 66, 108, 111, 99, 107, 45, 83, 105, 122, 101, 32, 75, 101, 121, 32, 45, 32, 72, 97, 115, 104, 32, 75, 101, 121, 32, 70, 105, 114, 115, 116] = [170, 74, 229, 225, 82, 114, 208, 14, 149, 112, 86, 55, 206, 138, 59, 85, 237, 64, 33, 18] := by decide +kernel
-- RFC 2202 test case 4: a 25-byte key, longer than the digest and shorter than the block, is used as it is
example : Spec.hmac Spec.md5 64 [1, 2, 3, 4, 5, 6, 7, 8, 9, 10, 11, 12, 13, 14, 15, 16, 17, 18, 19, 20, 21, 22, 23, 24, 25] [205, 205, 205, 205, 205, 205, 205, 205, 205, 205, 205, 205, 205, 205, 205, 205, 205, 205, 205, 205, 205, 205, 205, 205, 205, 205, 205, 205, 205, 205, 205, 205, 205, 205, 205, 205, 205, 205, 205, 205, 205, 205, 205, 205, 205, 205, 205, 205, 205, 205] = [105, 126, 175, 10, 202, 58, 58, 234, 58, 117, 22, 71, 70, 255, 170, 121] := by decide +kernel
example : Spec.hmac Spec.sha1 64 [1, 2, 3, 4, 5, 6, 7, 8, 9, 10, 11, 12, 13, 14, 15, 16, 17, 18, 19, 20, 21, 22, 23, 24, 25] [205, 205, 205, 205, 205, 205, 205, 205, 205, 205, 205, 205, 205, 205, 205, 205, 205, 205, 205, 205, 205, 205, 205, 205, 205, 205, 205, 205, 205, 205, 205, 205, 205, 205, 205, 205, 205, 205, 205, 205, 205, 205, 205, 205, 205, 205, 205, 205, 205, 205] = [76, 144, 7, 244, 2, 98, 80, 198, 188, 132, 20, 249, 191, 80, 200, 108, 45, 114, 53, 218] := by decide +kernel
-- the model's state machines on a message cut across a block boundary, with a dirty buffer, used twice
example : (md5Obj (List.replicate 64 0xee)).session (md5Obj (List.replicate 64 0xee)).fresh [[[0, 1, 2], [], [3, 4, 5, 6, 7, 8, 9, 10, 11, 12, 13, 14, 15, 16, 17, 18, 19, 20, 21, 22, 23, 24, 25, 26, 27, 28, 29, 30, 31, 32, 33, 34, 35, 36, 37, 38, 39, 40, 41, 42, 43, 44, 45, 46, 47, 48, 49, 50, 51, 52, 53, 54, 55, 56, 57, 58, 59, 60, 61, 62, 63, 64, 65], [66, 67, 68, 69]], [[97, 98, 99]]] = [[95, 31, 95, 100, 184, 68, 0, 251, 154, 214, 216, 236, 217, 193, 66, 160], [144, 1, 80, 152, 60, 210, 79, 176, 214, 150, 63, 125, 40, 225, 127, 114]] := by decide +kernel
example : (sha1Obj (List.replicate 64 0xee)).session (sha1Obj (List.replicate 64 0xee)).fresh [[[0, 1, 2], [], [3, 4, 5, 6, 7, 8, 9, 10, 11, 12, 13, 14, 15, 16, 17, 18, 19, 20, 21, 22, 23, 24, 25, 26, 27, 28, 29, 30, 31, 32, 33, 34, 35, 36, 37, 38, 39, 40, 41, 42, 43, 44, 45, 46, 47, 48, 49, 50, 51, 52, 53, 54, 55, 56, 57, 58, 59, 60, 61, 62, 63, 64, 65], [66, 67, 68, 69]], [[97, 98, 99]]] = [[194, 72, 135, 146, 79, 146, 173, 172, 90, 227, 103, 153, 93, 18, 105, 28, 102, 43, 115, 98], [169, 153, 62, 54, 71, 6, 129, 106, 186, 62, 37, 113, 120, 80, 194, 108, 156, 208, 216, 157]] := by decide +kernel
-- hex keys
example : setHex [0x30, 0x61, 0x46, 0x66] = .ok [0x0a, 0xff] := by decide
example : setHex [0x30, 0x61, 0x46] = .oddLength := by decide
example : setHex [0x30, 0x67] = .invalidChar := by decide

end Cppcms.C16.Props
