import Cppcms.C16.Model
namespace Cppcms.C16.Props
end Cppcms.C16.Props
