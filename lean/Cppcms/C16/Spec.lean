import Cppcms.Common
/-!
# C16 specifications, written from the standards (no import of Gen / Model)

* Merkle–Damgård hashing as RFC 1321 §3 / FIPS 180-4 §5–6 describe it: pad, split into 64-byte
  blocks, fold a compression function.  The compression function and the initial value are
  parameters here; `Model.lean` instantiates them with the functions assembled from the
  translated source (shared between model and spec, as DESIGN.md says), and `Spec.md5Compress`
  / `Spec.sha1Compress` below are independent transcriptions of the standards' round structure
  which `Props` proves equal to the translated ones.
* HMAC as RFC 2104 §2 over an arbitrary hash function.
* CBC as NIST SP 800-38A §6.2 over an arbitrary block permutation.
* hexadecimal key text.
-/
namespace Cppcms.C16.Spec
open Cppcms

/-! ## padding, splitting, folding -/

/-- number of zero bytes after the 0x80 byte: the least `k` with `(len + 1 + k) % 64 = 56` -/
def zeroPad (len : Nat) : Nat := (119 - len % 64) % 64

/-- 64-bit length, least significant byte first (RFC 1321 §3.2) -/
def le64 (n : Nat) : Bytes := (List.range 8).map fun i => UInt8.ofNat (n / 256 ^ i % 256)

/-- 64-bit length, most significant byte first (FIPS 180-4 §5.1.1) -/
def be64 (n : Nat) : Bytes := (le64 n).reverse

/-- value of a big-endian byte string -/
def beVal (l : Bytes) : Nat := l.foldl (fun acc b => acc * 256 + b.toNat) 0
/-- value of a little-endian byte string -/
def leVal (l : Bytes) : Nat := beVal l.reverse

/-- the padded message.  The bit length is taken modulo 2^64 (RFC 1321: "only the low-order 64
bits"; FIPS 180-4 defines SHA-1 only for lengths < 2^64 bits, where the reduction is the identity). -/
def pad (enc : Nat → Bytes) (msg : Bytes) : Bytes :=
  msg ++ (0x80 :: List.replicate (zeroPad msg.length) 0) ++ enc (8 * msg.length % 2 ^ 64)

def chunksAux (n : Nat) : Nat → Bytes → List Bytes
  | 0, _ => []
  | k + 1, l => l.take n :: chunksAux n k (l.drop n)

/-- consecutive `n`-byte blocks of `l` (an incomplete last block is dropped) -/
def chunks (n : Nat) (l : Bytes) : List Bytes := chunksAux n (l.length / n) l

/-- fold `compress` over the 64-byte blocks of `l` -/
def absorb {σ : Type} (compress : σ → Bytes → σ) (st : σ) (l : Bytes) : σ :=
  (chunks 64 l).foldl compress st

/-- an iterated hash: pad, split, fold, encode the final chaining value -/
def mdHash {σ : Type} (compress : σ → Bytes → σ) (iv : σ) (enc : Nat → Bytes) (out : σ → Bytes)
    (msg : Bytes) : Bytes :=
  out (absorb compress iv (pad enc msg))

/-- 32-bit word as 4 bytes, least significant first -/
def le32 (w : Nat) : Bytes := (List.range 4).map fun i => UInt8.ofNat (w / 256 ^ i % 256)
/-- 32-bit word as 4 bytes, most significant first -/
def be32 (w : Nat) : Bytes := (le32 w).reverse

/-! ## MD5 compression function, transcribed from RFC 1321 §3.4 -/

def M32 : Nat := 4294967296
def rotl32 (x s : Nat) : Nat := (x <<< s) % M32 ||| x >>> (32 - s)
def not32 (x : Nat) : Nat := M32 - 1 - x % M32

def md5F (x y z : Nat) : Nat := x &&& y ||| not32 x &&& z
def md5G (x y z : Nat) : Nat := x &&& z ||| y &&& not32 z
def md5H (x y z : Nat) : Nat := x ^^^ y ^^^ z
def md5I (x y z : Nat) : Nat := y ^^^ (x ||| not32 z)

/-- T[i] = floor(2^32 * |sin i|), i = 1..64 (table of RFC 1321 §3.4, typed in from the RFC) -/
def md5T : List Nat := [
  0xd76aa478, 0xe8c7b756, 0x242070db, 0xc1bdceee, 0xf57c0faf, 0x4787c62a, 0xa8304613, 0xfd469501,
  0x698098d8, 0x8b44f7af, 0xffff5bb1, 0x895cd7be, 0x6b901122, 0xfd987193, 0xa679438e, 0x49b40821,
  0xf61e2562, 0xc040b340, 0x265e5a51, 0xe9b6c7aa, 0xd62f105d, 0x02441453, 0xd8a1e681, 0xe7d3fbc8,
  0x21e1cde6, 0xc33707d6, 0xf4d50d87, 0x455a14ed, 0xa9e3e905, 0xfcefa3f8, 0x676f02d9, 0x8d2a4c8a,
  0xfffa3942, 0x8771f681, 0x6d9d6122, 0xfde5380c, 0xa4beea44, 0x4bdecfa9, 0xf6bb4b60, 0xbebfbc70,
  0x289b7ec6, 0xeaa127fa, 0xd4ef3085, 0x04881d05, 0xd9d4d039, 0xe6db99e5, 0x1fa27cf8, 0xc4ac5665,
  0xf4292244, 0x432aff97, 0xab9423a7, 0xfc93a039, 0x655b59c3, 0x8f0ccc92, 0xffeff47d, 0x85845dd1,
  0x6fa87e4f, 0xfe2ce6e0, 0xa3014314, 0x4e0811a1, 0xf7537e82, 0xbd3af235, 0x2ad7d2bb, 0xeb86d391]

/-- per-round shift amounts -/
def md5S : List (List Nat) := [[7, 12, 17, 22], [5, 9, 14, 20], [4, 11, 16, 23], [6, 10, 15, 21]]

/-- message word index used by operation `i` (0-based) -/
def md5K (i : Nat) : Nat :=
  if i < 16 then i else if i < 32 then (5 * i + 1) % 16 else if i < 48 then (3 * i + 5) % 16 else 7 * i % 16

/-- little-endian 32-bit word `k` of a block -/
def leWordAt (blk : Bytes) (k : Nat) : Nat :=
  (blk.getD (4 * k) 0).toNat + 256 * (blk.getD (4 * k + 1) 0).toNat
    + 65536 * (blk.getD (4 * k + 2) 0).toNat + 16777216 * (blk.getD (4 * k + 3) 0).toNat

/-- one operation `[abcd k s i]`: `a = b + ((a + f(b,c,d) + X[k] + T[i]) <<< s)`, followed by the
rotation of the register roles `(a,b,c,d) ↦ (d,a,b,c)` -/
def md5Op (blk : Bytes) (r : Nat × Nat × Nat × Nat) (i : Nat) : Nat × Nat × Nat × Nat :=
  let (a, b, c, d) := r
  let f := if i < 16 then md5F b c d else if i < 32 then md5G b c d else if i < 48 then md5H b c d else md5I b c d
  let s := (md5S.getD (i / 16) []).getD (i % 4) 0
  let t := (a + f + leWordAt blk (md5K i) + md5T.getD i 0) % M32
  (d, (b + rotl32 t s) % M32, b, c)

def md5Compress (st : List Nat) (blk : Bytes) : List Nat :=
  let a := st.getD 0 0; let b := st.getD 1 0; let c := st.getD 2 0; let d := st.getD 3 0
  let (a', b', c', d') := (List.range 64).foldl (md5Op blk) (a, b, c, d)
  [(a + a') % M32, (b + b') % M32, (c + c') % M32, (d + d') % M32]

def md5IV : List Nat := [0x67452301, 0xefcdab89, 0x98badcfe, 0x10325476]

/-- MD5 of a byte string, RFC 1321 -/
def md5 (msg : Bytes) : Bytes :=
  mdHash md5Compress md5IV le64 (fun st => st.flatMap le32) msg

/-! ## SHA-1 compression function, transcribed from FIPS 180-4 §6.1.2 -/

def beWordAt (blk : Bytes) (k : Nat) : Nat :=
  16777216 * (blk.getD (4 * k) 0).toNat + 65536 * (blk.getD (4 * k + 1) 0).toNat
    + 256 * (blk.getD (4 * k + 2) 0).toNat + (blk.getD (4 * k + 3) 0).toNat

def sha1Ch (x y z : Nat) : Nat := x &&& y ^^^ not32 x &&& z
def sha1Parity (x y z : Nat) : Nat := x ^^^ y ^^^ z
def sha1Maj (x y z : Nat) : Nat := x &&& y ^^^ x &&& z ^^^ y &&& z

def sha1F (t x y z : Nat) : Nat :=
  if t < 20 then sha1Ch x y z else if t < 40 then sha1Parity x y z else if t < 60 then sha1Maj x y z else sha1Parity x y z
def sha1K (t : Nat) : Nat :=
  if t < 20 then 0x5a827999 else if t < 40 then 0x6ed9eba1 else if t < 60 then 0x8f1bbcdc else 0xca62c1d6

/-- message schedule, newest word first: `W_t = ROTL^1(W_{t-3} ⊕ W_{t-8} ⊕ W_{t-14} ⊕ W_{t-16})` -/
def sha1Expand : Nat → List Nat → List Nat
  | 0, w => w
  | n + 1, w => sha1Expand n (rotl32 (w.getD 2 0 ^^^ w.getD 7 0 ^^^ w.getD 13 0 ^^^ w.getD 15 0) 1 :: w)

def sha1W (blk : Bytes) : List Nat :=
  (sha1Expand 64 (((List.range 16).map (beWordAt blk)).reverse)).reverse

def sha1Step (r : Nat × Nat × Nat × Nat × Nat) (tw : Nat × Nat) : Nat × Nat × Nat × Nat × Nat :=
  let (a, b, c, d, e) := r
  let (t, w) := tw
  ((rotl32 a 5 + sha1F t b c d + e + sha1K t + w) % M32, a, rotl32 b 30, c, d)

def sha1Compress (st : List Nat) (blk : Bytes) : List Nat :=
  let a := st.getD 0 0; let b := st.getD 1 0; let c := st.getD 2 0; let d := st.getD 3 0; let e := st.getD 4 0
  let (a', b', c', d', e') := ((List.range 80).zip (sha1W blk)).foldl sha1Step (a, b, c, d, e)
  [(a + a') % M32, (b + b') % M32, (c + c') % M32, (d + d') % M32, (e + e') % M32]

def sha1IV : List Nat := [0x67452301, 0xefcdab89, 0x98badcfe, 0x10325476, 0xc3d2e1f0]

/-- SHA-1 of a byte string, FIPS 180-4 (length reduced mod 2^64 beyond the standard's domain) -/
def sha1 (msg : Bytes) : Bytes :=
  mdHash sha1Compress sha1IV be64 (fun st => st.flatMap be32) msg

/-! ## HMAC, RFC 2104 §2 -/

/-- `H((K ⊕ opad) ‖ H((K ⊕ ipad) ‖ text))`, `K` = key zero-padded to the block size `B`, keys longer
than `B` are hashed first -/
def hmac (H : Bytes → Bytes) (B : Nat) (key text : Bytes) : Bytes :=
  let k0 := if key.length > B then H key else key
  let k := k0 ++ List.replicate (B - k0.length) 0
  H (k.map (· ^^^ 0x5c) ++ H (k.map (· ^^^ 0x36) ++ text))

/-! ## CBC, SP 800-38A §6.2, over any block type with an xor and a block function -/

def cbcEncrypt {β : Type} (xor : β → β → β) (E : β → β) : β → List β → List β
  | _, [] => []
  | iv, p :: ps => let c := E (xor p iv); c :: cbcEncrypt xor E c ps

def cbcDecrypt {β : Type} (xor : β → β → β) (D : β → β) : β → List β → List β
  | _, [] => []
  | iv, c :: cs => xor (D c) iv :: cbcDecrypt xor D c cs

/-! ## hexadecimal keys -/

def hexVal (c : UInt8) : Option Nat :=
  if 0x30 ≤ c ∧ c ≤ 0x39 then some (c.toNat - 0x30)
  else if 0x61 ≤ c ∧ c ≤ 0x66 then some (c.toNat - 0x61 + 10)
  else if 0x41 ≤ c ∧ c ≤ 0x46 then some (c.toNat - 0x41 + 10)
  else none

/-- bytes denoted by a string of hex digit pairs; `none` for odd length or a non-hex character -/
def fromHex : Bytes → Option Bytes
  | [] => some []
  | [_] => none
  | hi :: lo :: rest =>
    match hexVal hi, hexVal lo, fromHex rest with
    | some h, some l, some r => some (UInt8.ofNat (16 * h + l) :: r)
    | _, _, _ => none

/-! ## key files: hexadecimal text, trailing blanks / line ends ignored -/

/-- space, LF, CR, TAB -/
def isWs (c : UInt8) : Bool := c == 0x20 || c == 0x0a || c == 0x0d || c == 0x09

/-- `s` without its trailing white space -/
def rstrip : Bytes → Bytes
  | [] => []
  | c :: rest =>
    match rstrip rest with
    | [] => if isWs c then [] else [c]
    | r => c :: r

end Cppcms.C16.Spec
