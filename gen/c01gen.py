"""Case generators for C01 (well-formed requests x front-ends x segmentations) and C02 (malformed streams).
Everything is driven by a random.Random passed in, so a seed reproduces the run."""
import struct
from c01proto import *

UNRESERVED = b"ABCDEFGHIJKLMNOPQRSTUVWXYZabcdefghijklmnopqrstuvwxyz0123456789-_.~"
TOKEN_CHARS = bytes(c for c in range(0x21, 0x7f) if c not in b"()<>@,;:\\\"/[]?={} \t")
SCRIPTS = [b"/s", b"/a", b"/f", b"/other", b""]


def urlenc(b, rng, extra=0.0):
    """percent-encode; `extra` = probability of escaping an unreserved byte too; hex digit case is random"""
    out = bytearray()
    for c in b:
        if c in UNRESERVED and rng.random() >= extra:
            out.append(c)
        elif c == 0x20 and rng.random() < 0.5:
            out += b"+"
        else:
            h = "%02x" % c
            if rng.random() < 0.5:
                h = h.upper()
            out += b"%" + h.encode()
    return bytes(out)


def rand_bytes(rng, n, alphabet=None):
    if alphabet is None:
        return bytes(rng.randrange(1, 256) for _ in range(n))
    return bytes(rng.choice(alphabet) for _ in range(n))


def rand_text(rng, n):
    """bytes without NUL/CR/LF, biased to printable with some high bytes"""
    out = bytearray()
    for _ in range(n):
        r = rng.random()
        if r < 0.85:
            out.append(rng.randrange(0x20, 0x7f))
        elif r < 0.95:
            out.append(rng.randrange(0x80, 0x100))
        else:
            out.append(rng.choice(b"\t\x01\x7f\x1f"))
    return bytes(out)


class AbsReq:
    """abstract request: what the peer means.  All strings NUL-free."""

    def __init__(self):
        self.method = b"GET"
        self.script = b"/s"
        self.path = b"/"
        self.get = []          # decoded (name, value) pairs, names non-empty
        self.rawquery = None   # or a raw query string (then `get` is what it decodes to, if known, else None)
        self.headers = []      # (Name, value as seen by the application)
        self.cookies = []      # (name, value) tokens
        self.ctype = None
        self.post = None       # decoded pairs for urlencoded bodies
        self.body = b""
        self.keep = False
        self.http11 = False


def gen_absreq(rng, big=False, bighdr=False, manyvars=False, bigvalue=False):
    r = AbsReq()
    r.method = rng.choice([b"GET", b"POST", b"PUT", b"DELETE", b"X-custom!", b"get"])
    r.script = rng.choice([b"/s", b"/s", b"/a", b"/a", b"/f", b"/f", b""])
    n = rng.choice([0, 1, 3, 8, 30])
    r.path = b"/" + rand_text(rng, n) if (n or r.script == b"" or rng.random() < 0.7) else b""
    if r.script == b"" and rng.random() < 0.35:
        # no script: the first path component has a configured script name (http.script_names = /s /a /f) as a proper
        # string prefix, or continues behind an escaped '/': SCRIPT_NAME must stay empty, PATH_INFO the whole path
        r.path = b"/" + rng.choice([b"s", b"a", b"f"]) + rng.choice([b"ing/x", b".html", b"x", b"-v2/index", b"/x", b"s/" + rand_text(rng, 3), b"_", b"%", b"+"])
    if r.script == b"" and r.path in (b"/s", b"/a", b"/f"):
        r.path = b"/x" + r.path
    if rng.random() < 0.8:
        for _ in range(rng.choice([0, 1, 2, 5])):
            k = rand_text(rng, rng.choice([1, 2, 6]))
            if k in (b"bs", b"abort"):
                k += b"_"
            r.get.append((k, rand_text(rng, rng.choice([0, 1, 4, 20]))))
    if r.script == b"/f" and rng.random() < 0.5:
        r.get = [kv for kv in r.get if kv[0] != b"bs"] + [(b"bs", str(rng.choice([1, 2, 7, 64, 5000])).encode())]
    names = set()
    for _ in range(rng.choice([0, 1, 2, 4, 9])):
        nm = rand_bytes(rng, rng.choice([1, 3, 8]), TOKEN_CHARS)
        canon = nm.upper().replace(b"-", b"_")
        if canon in names or canon in (b"CONTENT_LENGTH", b"CONTENT_TYPE", b"COOKIE", b"CONNECTION"):
            continue
        names.add(canon)
        v = rand_text(rng, rng.choice([0, 1, 5, 40]))
        if len(v) > 3 and rng.random() < 0.6:
            # list-like value: words separated by blanks and tabs (fold positions)
            words = [rand_bytes(rng, rng.choice([1, 3, 7]), TOKEN_CHARS) for _ in range(rng.choice([2, 3, 6]))]
            v = words[0] + b"".join(rng.choice([b" ", b"\t", b", ", b",\t", b" \t", b"\t ", b"  "]) + w for w in words[1:])
        v = v.replace(b'"', b"").replace(b"(", b"").replace(b"\\", b"").strip(b" \t")
        r.headers.append((nm, v))
    if manyvars:
        # 30..150 CGI variables: string_map grows (total*2 >= size) once, twice, ... ; by-name lookups must still work
        want = rng.choice([30, 31, 32, 33, 34, 63, 64, 65, 66, 100, 127, 129, 150])
        i = 0
        while len(r.headers) < want:
            nm = rng.choice([b"X-", b"V", b"Accept-", b"k"]) + b"%d" % i + rand_bytes(rng, rng.choice([0, 1, 3]), TOKEN_CHARS)
            canon = nm.upper().replace(b"-", b"_")
            i += 1
            if canon in names:
                continue
            names.add(canon)
            r.headers.append((nm, rand_bytes(rng, rng.choice([0, 1, 2, 9]), TOKEN_CHARS)))
    if bigvalue:
        # one variable value of 1025..2000 bytes (string_pool: over-sized allocation while the pool has one page)
        v = rand_bytes(rng, rng.choice([1025, 1100, 1500, 1990, 2000, 2040]), TOKEN_CHARS)
        r.headers = [(b"X-Large", v)] + r.headers[:2]
    if bighdr:
        # header section close to (but within) the 16 KiB limits of all three front-ends
        budget = rng.choice([3000, 9000, 15000, 15600])
        used = sum(len(a) + len(b) + 12 for a, b in r.headers)
        i = 0
        while used < budget:
            n = min(budget - used, rng.choice([200, 900, 4000]))
            v = rand_text(rng, n).replace(b'"', b"").replace(b"(", b"").replace(b"\\", b"").strip(b" \t")
            nm = b"X-Big-%d" % i
            r.headers.append((nm, v)); used += len(nm) + len(v) + 12; i += 1
        r.get = r.get[:1]; r.path = r.path[:8]
    if rng.random() < 0.5:
        cn = set()
        for _ in range(rng.choice([1, 2, 4])):
            k = rand_bytes(rng, rng.choice([1, 4]), TOKEN_CHARS.replace(b"$", b""))
            if k in cn:
                continue
            cn.add(k)
            r.cookies.append((k, rand_bytes(rng, rng.choice([0, 1, 6]), TOKEN_CHARS)))
    if r.method in (b"POST", b"PUT") or rng.random() < 0.2:
        kind = rng.random()
        if kind < 0.5:
            r.ctype = rng.choice([b"application/x-www-form-urlencoded", b"Application/X-WWW-Form-UrlEncoded; charset=utf-8"])
            r.post = [(rand_text(rng, rng.choice([1, 3])), rand_text(rng, rng.choice([0, 2, 30]))) for _ in range(rng.choice([1, 2, 6]))]
            r.body = b"&".join(urlenc(k, rng, 0.1) + b"=" + urlenc(v, rng, 0.1) for k, v in r.post)
        else:
            r.ctype = rng.choice([b"application/octet-stream", b"text/plain", None])
            ln = rng.choice([1, 2, 17, 300, 5000]) if not big else rng.choice([65535, 65536, 70000, 131072])
            r.body = bytes(rng.randrange(256) for _ in range(ln)) if ln < 20000 else (bytes(rng.randrange(256) for _ in range(997)) * (ln // 997 + 1))[:ln]
    return r


def query_string(r, rng):
    if r.rawquery is not None:
        return r.rawquery
    return b"&".join(urlenc(k, rng, 0.1) + b"=" + urlenc(v, rng, 0.1) for k, v in r.get)


def cookie_header(r, rng):
    return rng.choice([b"; ", b";", b", "]).join(k + b"=" + v for k, v in r.cookies)


def cgi_pairs(r, q, ck, rng):
    """what a web server puts into the SCGI/FastCGI environment"""
    p = []
    if r.body or rng.random() < 0.7:
        p.append((b"CONTENT_LENGTH", str(len(r.body)).encode()))
    p += [(b"REQUEST_METHOD", r.method), (b"SCRIPT_NAME", r.script), (b"PATH_INFO", r.path), (b"QUERY_STRING", q)]
    if r.ctype is not None:
        p.append((b"CONTENT_TYPE", r.ctype))
    for nm, v in r.headers:
        p.append((b"HTTP_" + nm.upper().replace(b"-", b"_"), v))
    if r.cookies:
        p.append((b"HTTP_COOKIE", ck))
    if rng.random() < 0.5:
        p.append((b"SERVER_NAME", b"example.org"))
    rng.shuffle(p)
    return p


def http_request(r, q, ck, rng):
    # the path is empty or '/'-rooted; its first '/' stays literal (URI root / script name boundary)
    uri = r.script + (b"/" + urlenc(r.path[1:], rng, 0.15) if r.path.startswith(b"/") else urlenc(r.path, rng, 0.15))
    if q or rng.random() < 0.2:
        uri += b"?" + q
    hs = []
    for nm, v in r.headers:
        wire = v
        # obs-fold = CRLF 1*(SP / HTAB): the peer may break a value in front of any inner blank or tab (the code keeps
        # that blank/tab and drops the CRLF, so the value delivered is the value meant); several folds per header
        blanks = [i for i in range(1, len(v)) if v[i] in b" \t"]
        if blanks and rng.random() < 0.5:
            tabs = [i for i in blanks if v[i] == 9]
            k = rng.choice([1, 1, 2, 5])
            pick = set(rng.sample(blanks, min(k, len(blanks))))
            if tabs and rng.random() < 0.7:
                pick.add(rng.choice(tabs))
            out, last = b"", 0
            for i in sorted(pick):
                out += v[last:i] + b"\r\n"; last = i
            wire = out + v[last:]
        sep = rng.choice([b": ", b":", b" : ", b":\t ", b": \r\n "])
        if sep.endswith(b"\r\n ") and not wire:
            sep = b": "
        hs.append((nm, wire, sep))
    if r.ctype is not None:
        hs.append((rng.choice([b"Content-Type", b"content-type", b"CONTENT-TYPE"]), r.ctype, b": "))
    if r.body or rng.random() < 0.5:
        hs.append((rng.choice([b"Content-Length", b"content-length"]), str(len(r.body)).encode(), b": "))
    if r.cookies:
        hs.append((b"Cookie", ck, b": "))
    if r.keep:
        hs.append((b"Connection", rng.choice([b"keep-alive", b"Keep-Alive"]), b": "))
    rng.shuffle(hs)
    return enc_http(r.method, uri, hs, r.body, b"HTTP/1.1" if r.http11 else b"HTTP/1.0")


def random_cuts(rng, n, k):
    return sorted(set(rng.randrange(1, n) for _ in range(k))) if n > 1 else []


def segmentations(rng, data, budget):
    """list of segment lists for one byte string: whole, every split point when short, random multi-splits"""
    res = [[data]]
    n = len(data)
    if n <= 1:
        return res
    if n <= 200:
        pts = list(range(1, n))
        rng.shuffle(pts)
        for p in pts[:budget]:
            res.append([data[:p], data[p:]])
    else:
        for _ in range(budget):
            k = rng.choice([1, 1, 2, 3, 8])
            res.append(cut(data, random_cuts(rng, n, k)))
        # cuts near the interesting offsets: 16 (scgi eager read), first 64 bytes, the end
        for p in (15, 16, 17):
            if p < n and rng.random() < 0.3:
                res.append([data[:p], data[p:]])
    if rng.random() < 0.3:
        k = min(n - 1, rng.choice([4, 10, 40]))
        res.append(cut(data, random_cuts(rng, n, k)))
    if n <= 64 and rng.random() < 0.3:
        res.append([data[i:i + 1] for i in range(n)])
    return res


def encode_all(r, rng):
    """-> {api: bytes} for one abstract request, plus the strings the judge needs"""
    q = query_string(r, rng)
    ck = cookie_header(r, rng)
    pairs = cgi_pairs(r, q, ck, rng)
    npb = len(fcgi_pairs(pairs))
    pc = random_cuts(rng, npb, rng.choice([0, 0, 1, 3])) if npb > 1 else []
    sc = random_cuts(rng, len(r.body), rng.choice([0, 0, 1, 4])) if len(r.body) > 1 else []
    # STDIN records carry at most 65535 bytes
    last, sc2 = 0, []
    for c in sc + [len(r.body)]:
        while c - last > 65535:
            last += 65535; sc2.append(last)
        if c < len(r.body):
            sc2.append(c)
        last = c
    pads = [rng.choice([0, 0, 1, 7, 8, 255]) for _ in range(40)]
    return {
        "scgi": enc_scgi(pairs, r.body),
        "fastcgi": enc_fcgi(pairs, r.body, rid=rng.choice([1, 1, 2, 65535]), keep=r.keep, pcuts=pc, scuts=sorted(set(sc2)),
                            pads=pads, force4=rng.random() < 0.2),
        "http": http_request(r, q, ck, rng),
    }, q, ck


def fcgi_fullsize(rng, keep=False):
    """a well-formed FastCGI request whose first STDIN record is (nearly) full-size *and padded*: content 65500..65535,
    padding 1..255 (content + padding may exceed 65535: perfectly legal, the two lengths are separate fields).
    -> (AbsReq, query, cookie, wire bytes, (content, padding))"""
    r = gen_absreq(rng)
    r.method = b"POST"; r.post = None; r.ctype = rng.choice([b"text/plain", b"application/octet-stream"])
    if r.script == b"/f":
        r.get = [kv for kv in r.get if kv[0] not in (b"bs", b"abort")]
    r.keep = keep
    c = rng.choice([65535, 65535, 65535, 65534, 65500, 65281, rng.randint(65500, 65535)])
    p = rng.choice([1, 1, 7, 8, 36, 100, 254, 255, rng.randint(1, 255)])
    total = c + rng.choice([0, 0, 1, 100, 3000])
    r.body = bytes(rng.randrange(256) for _ in range(64)) * (total // 64 + 1)
    r.body = r.body[:total]
    q = query_string(r, rng)
    ck = cookie_header(r, rng)
    pairs = cgi_pairs(r, q, ck, rng)
    rid = rng.choice([1, 2, 65535])
    out = fcgi_begin(rid, 1, 1 if keep else 0, 0)
    out += fcgi_rec(FCGI_PARAMS, rid, fcgi_pairs(pairs), rng.choice([0, 3])) + fcgi_rec(FCGI_PARAMS, rid, b"")
    out += fcgi_rec(FCGI_STDIN, rid, r.body[:c], p)
    rest = r.body[c:]
    while rest:
        out += fcgi_rec(FCGI_STDIN, rid, rest[:65535], rng.choice([0, 5])); rest = rest[65535:]
    out += fcgi_rec(FCGI_STDIN, rid, b"")
    return r, q, ck, out, (c, p)


def absreq_judge_fields(r, q, ck):
    """fields of the abstract request the Lean judge gets (all hex)"""
    hdrs = [(b"HTTP_" + nm.upper().replace(b"-", b"_"), v) for nm, v in r.headers]
    if r.cookies:
        hdrs.append((b"HTTP_COOKIE", ck))
    if r.ctype is not None:
        hdrs.append((b"CONTENT_TYPE", r.ctype))
    return {
        "method": r.method, "script": r.script, "path": r.path, "query": q, "hdrs": hdrs,
        "get": r.get, "post": r.post if r.post is not None else [], "cookies": r.cookies, "body": r.body,
        "has_body": bool(r.body),
    }


# ------------------------------------------------------------------------------------------ malformed
def mutate_bytes(rng, data):
    """generic byte-level mutations"""
    if not data:
        return bytes([rng.randrange(256)])
    b = bytearray(data)
    for _ in range(rng.choice([1, 1, 2, 4])):
        op = rng.randrange(6)
        i = rng.randrange(len(b))
        if op == 0:
            b[i] = rng.randrange(256)
        elif op == 1:
            b[i] ^= 1 << rng.randrange(8)
        elif op == 2:
            del b[i]
            if not b:
                b.append(0)
        elif op == 3:
            b.insert(i, rng.choice([0, 0xff, 0x0d, 0x0a, 0x22, 0x28, 0x3a, 0x2c, 0x80, rng.randrange(256)]))
        elif op == 4:
            j = rng.randrange(len(b))
            b[i], b[j] = b[j], b[i]
        else:
            n = rng.choice([1, 2, 8, 64])
            b[i:i] = bytes([b[i]]) * n
    return bytes(b)


BAD_LENGTHS = [b"-1", b"-0", b"+5", b" 7", b"0x10", b"1e3", b"99999999999999999999", b"-99999999999999999999", b"2147483648",
               b"4294967296", b"4294967297", b"9223372036854775807", b"9223372036854775808", b"-9223372036854775808",
               b"18446744073709551615", b"", b"abc", b"7 ", b"007", b"131072", b"131073", b"134217728"]


def malformed_scgi(rng, base_pairs, body):
    k = rng.randrange(12)
    good = enc_scgi(base_pairs, body)
    hdr = b"".join(a + b"\0" + b for a, b in base_pairs) + b"\0"
    if k == 0:    # length field lies
        d = rng.choice([-2, -1, 1, 2, 100, -len(hdr), 16384 - len(hdr), 16385 - len(hdr), 2 ** 31, 2 ** 32, 2 ** 32 + len(hdr) - len(hdr)])
        return str(len(hdr) + d).encode() + b":" + hdr + b"," + body
    if k == 1:    # odd number formats
        pre = rng.choice([b" ", b"+", b"-", b"0", b"00", b"\t", b"0x"])
        return pre + str(len(hdr)).encode() + b":" + hdr + b"," + body
    if k == 2:    # no colon in the first 16 bytes
        return rng.choice([b"1" * 20, b"", b"12345678901234567", hdr])
    if k == 3:    # missing / wrong terminator
        return str(len(hdr)).encode() + b":" + hdr + rng.choice([b"", b";", b"\0", b",,"]) + body
    if k == 4:    # no NUL terminators in the block
        h2 = hdr.replace(b"\0", rng.choice([b"", b" ", b"\x01"]))
        return str(len(h2)).encode() + b":" + h2 + b"," + body
    if k == 5:    # odd number of strings
        h2 = hdr + b"LONELY\0"
        return str(len(h2)).encode() + b":" + h2 + b"," + body
    if k == 6:    # tiny netstrings
        return rng.choice([b"0:,", b"1:\0,", b"2:a\0,", b"13:" + b"a" * 13 + b",", b"14:" + b"a\0" * 7 + b",", b"0000000000013:" + b"a\0b\0c\0d\0e\0f\0g" + b","])
    if k == 7:    # content length games
        p2 = [(a, rng.choice(BAD_LENGTHS)) if a == b"CONTENT_LENGTH" else (a, b) for a, b in base_pairs]
        if not any(a == b"CONTENT_LENGTH" for a, _ in p2):
            p2.append((b"CONTENT_LENGTH", rng.choice(BAD_LENGTHS)))
        return enc_scgi(p2, body)
    if k == 8:    # truncation
        return good[:rng.randrange(len(good))]
    if k == 9:    # duplicated variables
        p2 = list(base_pairs) + [rng.choice(base_pairs)] if base_pairs else base_pairs
        return enc_scgi(p2, body)
    if k == 10:   # huge header block just over the limit
        big = [(b"X" + str(i).encode(), b"v" * 100) for i in range(rng.choice([150, 160, 170]))]
        return enc_scgi(base_pairs + big, body)
    return mutate_bytes(rng, good)


def malformed_fcgi(rng, base_pairs, body):
    k = rng.randrange(20)
    rid = rng.choice([1, 2, 0, 65535])
    pb = fcgi_pairs(base_pairs)
    B = lambda **kw: fcgi_begin(kw.get("rid", rid), kw.get("role", 1), kw.get("flags", 0), kw.get("pad", 0))
    P = lambda c, **kw: fcgi_rec(FCGI_PARAMS, kw.pop("rid", rid), c, **kw)
    S = lambda c, **kw: fcgi_rec(FCGI_STDIN, kw.pop("rid", rid), c, **kw)
    std = lambda: B() + P(pb) + P(b"") + (S(body) if body else b"") + S(b"")
    if k == 0:    # wrong version
        return fcgi_rec(FCGI_BEGIN, rid, struct.pack(">HB5x", 1, 0), version=rng.choice([0, 2, 255])) + P(pb) + P(b"") + S(b"")
    if k == 1:    # role != responder
        return B(role=rng.choice([0, 2, 3, 65535]), pad=rng.choice([0, 3, 8])) + std()
    if k == 2:    # begin body of wrong size
        return fcgi_rec(FCGI_BEGIN, rid, rng.choice([b"", b"\0\1", b"\0\1\0\0\0\0\0", b"\0\1\0\0\0\0\0\0\0"])) + P(pb) + P(b"") + S(b"")
    if k == 3:    # wrong record type / id where PARAMS expected
        t = rng.choice([FCGI_STDIN, FCGI_DATA, FCGI_ABORT, FCGI_BEGIN, 0, 12, 255])
        return B() + fcgi_rec(t, rid, rng.choice([b"", b"abc"])) + S(b"") + S(b"")
    if k == 4:
        return B() + P(pb, rid=(rid + 1) & 0xFFFF) + P(b"") + S(b"")
    if k == 5:    # GET_VALUES variants
        names = rng.sample([b"FCGI_MAX_CONNS", b"FCGI_MAX_REQS", b"FCGI_MPXS_CONNS", b"FCGI_OTHER", b""], rng.randrange(0, 5))
        gv = fcgi_rec(FCGI_GET_VALUES, rng.choice([0, 5]), fcgi_pairs([(n, b"") for n in names]), pad=rng.choice([0, 1, 5, 255]))
        return gv + (std() if rng.random() < 0.6 else b"")
    if k == 6:    # malformed pair lengths in PARAMS
        bad = rng.choice([b"\x05", b"\x05\x05abc", b"\x80\x00\x00", b"\x80\x00\x00\x05\x01abc", b"\xff\xff\xff\xff\xff\xff\xff\xff", b"\x01\x81\x00\x00\x00a",
                          b"\x7f\x7fshort", b"\x00\x00", b"\x00\x05abcde", b"\x84\x00\x00\x00" + b"\x01" + b"k" * 0x04000000 if False else b"\x84\x00\x00\x00\x01k"])
        return B() + P(pb + bad) + P(b"") + S(b"")
    if k == 7:    # padding lies / content length lies
        return B() + fcgi_rec(FCGI_PARAMS, rid, pb, pad=rng.choice([1, 7]), plen=rng.choice([0, 200])) + P(b"") + S(b"")
    if k == 8:    # params over the 16 KiB accumulation limit
        big = fcgi_pairs([(b"HTTP_X%d" % i, b"v" * 200) for i in range(rng.choice([70, 79, 80, 90]))])
        recs = b"".join(P(x) for x in cut(pb + big, list(range(4000, len(pb + big), 4000))))
        return B() + recs + P(b"") + S(b"")
    if k == 9:    # STDIN shorter / longer than CONTENT_LENGTH, missing terminator
        v = rng.randrange(4)
        if v == 0:
            return B() + P(pb) + P(b"") + S(body[:len(body) // 2]) + S(b"")
        if v == 1:
            return B() + P(pb) + P(b"") + S(body + b"extra") + S(b"")
        if v == 2:
            return B() + P(pb) + P(b"") + S(body)
        return B() + P(pb) + P(b"") + (S(body) if body else b"") + S(b"x")
    if k == 10:   # content length games
        p2 = [(a, rng.choice(BAD_LENGTHS)) if a == b"CONTENT_LENGTH" else (a, b) for a, b in base_pairs]
        if not any(a == b"CONTENT_LENGTH" for a, _ in p2):
            p2.append((b"CONTENT_LENGTH", rng.choice(BAD_LENGTHS)))
        return B() + P(fcgi_pairs(p2)) + P(b"") + (S(body) if body else b"") + S(b"")
    if k == 11:   # truncation
        g = std()
        return g[:rng.randrange(len(g))]
    if k == 12:   # unknown / management records interleaved
        junk = fcgi_rec(rng.choice([FCGI_ABORT, FCGI_DATA, FCGI_UNKNOWN, 0, 200]), rng.choice([0, rid]), rand_bytes(rng, rng.choice([0, 3, 8])), pad=rng.choice([0, 4]))
        return junk + std()
    if k == 13:   # stdin where the request id differs
        return B() + P(pb) + P(b"") + fcgi_rec(FCGI_STDIN, (rid + 1) & 0xFFFF, body or b"x") + S(b"")
    if k == 14:   # keep-alive followed by garbage / by a second request
        first = fcgi_begin(rid, 1, 1) + P(pb) + P(b"") + (S(body) if body else b"") + S(b"")
        return first + rng.choice([std(), rand_bytes(rng, 9), first[:11], b""])
    if k == 15:   # NUL inside names / values
        p2 = base_pairs + [(b"HTTP_N\0UL", b"a\0b"), (b"", b"emptyname")]
        return B() + P(fcgi_pairs(p2)) + P(b"") + (S(body) if body else b"") + S(b"")
    if k == 16:   # records with maximal lengths
        return B() + P(pb) + P(b"") + fcgi_rec(FCGI_STDIN, rid, body[:65535], pad=255) + S(b"")
    if k == 17:   # empty params
        return B() + P(b"") + S(b"")
    if k == 18:   # duplicate variables
        p2 = list(base_pairs) + ([rng.choice(base_pairs)] if base_pairs else [])
        return B() + P(fcgi_pairs(p2)) + P(b"") + (S(body) if body else b"") + S(b"")
    return mutate_bytes(rng, std())


def malformed_http(rng, r, good):
    k = rng.randrange(20)
    if k == 0:    # bad request lines
        return rng.choice([b"\r\n", b"GET\r\n\r\n", b"GET /\r\n\r\n", b" / HTTP/1.0\r\n\r\n", b"G@T / HTTP/1.0\r\n\r\n", b"GET x HTTP/1.0\r\n\r\n",
                           b"GET  HTTP/1.0\r\n\r\n", b"GET / HTTP/1.0 extra\r\n\r\n", b"GET /s/\0x HTTP/1.0\r\n\r\n", b"GET /%00 HTTP/1.0\r\n\r\n",
                           b"GET /s?a=%zz&b HTTP/1.0\r\n\r\n", b"\"GET / HTTP/1.0\"\r\n\r\n", b"(GET / HTTP/1.0\r\n\r\n"])
    if k == 1:    # content-length games
        v = rng.choice(BAD_LENGTHS)
        return enc_http(b"POST", b"/" + rng.choice([b"s", b"a", b"f"]) + b"/x", [(b"Content-Length", v)], r.body)
    if k == 2:    # bad header lines
        bad = rng.choice([b"NoColon\r\n", b": novalue\r\n", b"Na me: v\r\n", b"N\x80: v\r\n", b"N:\r\n", b"N: \"unterminated\r\n", b"N: (comment\r\n",
                          b"N: \"q\\\x80\"\r\n", b"N: (c\\\xff)\r\n", b"N: a\rb\r\n", b"N: a\nb\r\n", b"N: a\r\n\tb\r\n", b"N: \"a\r\nb\"\r\n", b" leading: x\r\n"])
        return b"GET /s/x HTTP/1.0\r\n" + bad + b"\r\n"
    if k == 3:    # header block around the 16 KiB cap
        n = rng.choice([16000, 16300, 16384, 16385, 17000, 20000, 33000])
        return b"GET /s/x HTTP/1.0\r\nX-Big: " + b"a" * n + b"\r\n\r\n"
    if k == 4:    # many headers
        return b"GET /a/x HTTP/1.0\r\n" + b"".join(b"X-%d: v\r\n" % i for i in range(rng.choice([31, 32, 33, 64, 200]))) + b"\r\n"
    if k == 5:    # truncation
        return good[:rng.randrange(len(good))]
    if k == 6:    # body shorter / longer than declared
        return enc_http(b"POST", b"/a/x", [(b"Content-Length", str(len(r.body) + rng.choice([1, 5, 100])).encode())], r.body)
    if k == 7:
        return enc_http(b"POST", b"/f/x", [(b"Content-Length", str(max(0, len(r.body) - 1)).encode())], r.body)
    if k == 8:    # duplicate / conflicting headers
        return enc_http(b"POST", b"/s/x", [(b"Content-Length", b"3"), (b"Content-Length", b"5"), (b"Content-Type", b"a/b"), (b"Content-Type", b"application/x-www-form-urlencoded")], b"a=1&b")
    if k == 9:    # keep-alive with junk after the request
        first = enc_http(b"GET", b"/s/k", [(b"Connection", b"keep-alive")], b"", b"HTTP/1.1")
        return first + rng.choice([b"junk", b"\r\n", good, first + first, b"GET / HTTP/1.1\r\n"])
    if k == 10:   # bare LF line ends, CR only
        return good.replace(b"\r\n", rng.choice([b"\n", b"\r", b"\r\r\n", b"\n\r"]))
    if k == 11:   # over-limit body
        return enc_http(b"POST", b"/" + rng.choice([b"s", b"f"]) + b"/x", [(b"Content-Length", str(rng.choice([131073, 200000, 2 ** 31, 2 ** 40])).encode())], b"abc")
    if k == 12:   # upload aborted by the application
        return enc_http(b"POST", b"/f/x?abort=" + rng.choice([b"400", b"403", b"500", b"1", b"999", b"abc"]), [(b"Content-Length", b"3")], b"abc")
    if k == 13:   # filter with odd buffer sizes
        return enc_http(b"POST", b"/f/x?bs=" + rng.choice([b"0", b"-5", b"1", b"99999999999", b"x"]), [(b"Content-Length", str(len(r.body)).encode())], r.body)
    if k == 14:   # odd URIs
        u = rng.choice([b"/s", b"/s/", b"/sx", b"/s?", b"/?", b"/s/%", b"/s/%4", b"/s/%41%", b"/a/+%2b", b"//", b"/f/../s", b"/s/" + b"%41" * 3000, b"/" + b"?" * 10])
        return b"GET " + u + b" HTTP/1.0\r\n\r\n"
    if k == 15:   # content-type games
        ct = rng.choice([b"", b"/", b"a/", b"/b", b"application/x-www-form-urlencoded;", b"APPLICATION/X-WWW-FORM-URLENCODED", b"application/x-www-form-urlencoded ; q=\"",
                         b" application/x-www-form-urlencoded", b"application / x-www-form-urlencoded"])
        return enc_http(b"POST", b"/s/x", [(b"Content-Type", ct), (b"Content-Length", b"7")], b"a=1&b=2")
    if k == 16:   # cookie games
        ck = rng.choice([b"a", b"a=", b"=b", b";;", b"a=b;;c=d", b"$Path=/; a=b", b"a=\"unterminated", b"a=\"q\\\"x\"; b=c", b"a b=c", b"a=b c=d", b"\x80=1", b"a=b,c=d,", b" ", b"$Domain=d; $Path=n; x=y"])
        return enc_http(b"GET", b"/s/x", [(b"Cookie", ck)], b"")
    if k == 17:   # malformed form bodies
        body = rng.choice([b"a", b"=b", b"a=b&c", b"&&", b"a=%", b"a=%4", b"a=%zz", b"a==b", b"a=b&&c=d", b"%00=1"])
        return enc_http(b"POST", b"/s/x?" + body, [(b"Content-Type", b"application/x-www-form-urlencoded"), (b"Content-Length", str(len(body)).encode())], body)
    if k == 18:   # HTTP/1.0 keep-alive
        first = enc_http(b"GET", b"/s/k", [(b"Connection", b"Keep-Alive")], b"", b"HTTP/1.0")
        return first + first
    return mutate_bytes(rng, good)
