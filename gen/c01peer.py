"""HTTP requests in *peer form*: the structures the Lean round-trip theorems quantify over (`HttpPeer`, `HttpField`,
`PctPiece`, `FLine`, `FormField`, `CookieItem`; lean/Cppcms/C01/HttpRequestRT.lean, Urlenc.lean), generated with every
choice the peer has made at random: which bytes of the path / of form names and values are escaped, upper or lower case hex
digits, `+` or `%20`, spelling of header names, blanks after the colon, where header lines are folded, `;` or `,` and
blanks between cookies.

The wire bytes are produced *here* (python) and again by the Lean encoders (`encFLines`, `encForm`, `encCookies`); the
driver's judges `J peer`, `J form`, `J cookies` check (1) the executable well-formedness predicates (`okB`, sound w.r.t. the
theorems' hypotheses), (2) python wire = Lean wire, (3) what the real application reported = the right-hand sides of the
theorems (`HttpPeer.head … .env.toMap`, `formSorted (fields meant)`, `cookiesMeant`)."""
from c01proto import hx, enc_scgi, enc_fcgi

TOKEN = bytes(c for c in range(33, 127) if chr(c) not in '()<>@,;:\\"/[]?={} \t')
NAME_CHARS = b"ABCDEFGHIJKLMNOPQRSTUVWXYZabcdefghijklmnopqrstuvwxyz0123456789-"
# literal bytes allowed on a header line as the parser is modelled for PlainLine/ContPiece: no CR, '"', '('
LINE_BAD = {13, 34, 40}
SCRIPTS = [b"/s", b"/a", b"/f", b""]


def hxd(b):
    return b.hex() if b else "."


def hexdigit(n, upper):
    return ord("0123456789ABCDEF"[n]) if upper else ord("0123456789abcdef"[n])


class Piece:
    """lit b | plus | esc b u1 u2"""
    def __init__(self, kind, b=0, u1=False, u2=False):
        self.kind, self.b, self.u1, self.u2 = kind, b, u1, u2

    def wire(self):
        if self.kind == "l":
            return bytes([self.b])
        if self.kind == "p":
            return b"+"
        return bytes([37, hexdigit(self.b >> 4, self.u1), hexdigit(self.b & 15, self.u2)])

    def value(self):
        return 32 if self.kind == "p" else self.b

    def enc(self):
        if self.kind == "l":
            return "l%02x" % self.b
        if self.kind == "p":
            return "p"
        return "e%02x%d%d" % (self.b, self.u1, self.u2)


def pieces_for(rng, data, must_escape, allow_plus=True, esc_rate=0.15):
    """percent-encode `data`: bytes in must_escape (and % +) are escaped, others at random"""
    out = []
    for b in data:
        if b == 32 and allow_plus and rng.random() < 0.5:
            out.append(Piece("p"))
        elif b in must_escape or b in (37, 43) or rng.random() < esc_rate:
            out.append(Piece("e", b, rng.random() < 0.5, rng.random() < 0.5))
        else:
            out.append(Piece("l", b))
    return out


def enc_pieces(ps):
    return ",".join(p.enc() for p in ps) if ps else "-"


def rand_from(rng, alphabet, lo, hi):
    return bytes(rng.choice(alphabet) for _ in range(rng.randint(lo, hi)))


def gen_form(rng, n):
    """n fields; names non-empty; returns list of (name pieces, value pieces)"""
    fs = []
    for _ in range(n):
        name = bytes(rng.randint(1, 255) for _ in range(rng.randint(1, 6)))
        value = bytes(rng.randint(1, 255) for _ in range(rng.randint(0, 8)))
        # what must not appear literally inside a query string on the request line / in a form body
        # ('?' keeps no meaning after the first one of the URI and may stay literal)
        bad = set(range(0, 33)) | set(range(127, 256)) | {38, 61, 35} | LINE_BAD
        fs.append((pieces_for(rng, name, bad), pieces_for(rng, value, bad)))
    return fs


def form_wire(fs):
    return b"&".join(b"".join(p.wire() for p in n) + b"=" + b"".join(p.wire() for p in v) for n, v in fs)


def enc_form(fs):
    return ";".join(enc_pieces(n) + "=" + enc_pieces(v) for n, v in fs) if fs else "-"


def gen_cookies(rng, n, quoted=False, http=False):
    """items (name, value, sep, ws, esc): esc None = token value; list of bools = quoted string, flag = backslash in front"""
    cs = []
    for _ in range(n):
        name = rand_from(rng, TOKEN.replace(b"$", b""), 1, 6)
        sep = rng.choice([59, 44])
        ws = bytes(rng.choice([32, 9]) for _ in range(rng.randint(0, 3)))
        if quoted and rng.random() < 0.6:
            if http:
                # inside an HTTP header line: no CR/LF, and the header parser rejects a backslash in front of a byte >= 127
                value = bytes(rng.choice([c for c in range(32, 256)]) for _ in range(rng.randint(0, 10)))
                esc = [(b in (34, 92)) or (b < 127 and rng.random() < 0.15) for b in value]
            else:
                value = bytes(rng.randint(1, 255) for _ in range(rng.randint(0, 10)))
                esc = [(b in (34, 92)) or rng.random() < 0.15 for b in value]
        else:
            value = rand_from(rng, TOKEN, 0, 8)
            esc = None
        cs.append((name, value, sep, ws, esc))
    return cs


def cookie_value_wire(v, esc):
    if esc is None:
        return v
    return b'"' + b"".join((b"\\" if e else b"") + bytes([b]) for b, e in zip(v, esc)) + b'"'


def cookies_wire(cs):
    out = b""
    for i, (n, v, sep, ws, esc) in enumerate(cs):
        out += n + b"=" + cookie_value_wire(v, esc)
        if i + 1 < len(cs):
            out += bytes([sep]) + ws
    return out


def enc_cookies(cs):
    return ",".join(f"{hxd(n)}:{hxd(v)}:{sep:02x}:{hxd(ws)}:" + ("t" if esc is None else "".join("1" if e else "0" for e in esc))
                    for n, v, sep, ws, esc in cs) if cs else "-"


def lm_modes(line):
    """the parser's mode *before* every byte of a header line (Lean: LMode / lmStep); None if the line is not admissible"""
    modes, m = [], "plain"
    for c in line:
        modes.append(m)
        if m == "plain":
            if c == 13:
                return None
            m = "quote" if c == 34 else "comment" if c == 40 else "plain"
        elif m == "quote":
            m = "plain" if c == 34 else "quoteEsc" if c == 92 else "quote"
        elif m == "comment":
            m = "plain" if c == 41 else "commentEsc" if c == 92 else "comment"
        else:
            if c >= 127:
                return None
            m = "quote" if m == "quoteEsc" else "comment"
    return modes if m == "plain" else None


def rich_value(rng):
    """a header value with quoted strings and comments in it (balanced), visible ASCII, not starting with a blank"""
    vis = bytes(c for c in range(33, 127) if c not in LINE_BAD and c not in (41, 92))
    out = bytes([rng.choice(vis)])
    for _ in range(rng.randint(0, 4)):
        k = rng.random()
        if k < 0.4:
            out += bytes(rng.choice(vis + b" \t") for _ in range(rng.randint(1, 6)))
        elif k < 0.75:
            body = b""
            for _ in range(rng.randint(0, 6)):
                c = rng.choice(bytes(range(32, 127)))
                body += b"\\" + bytes([c]) if (c in (34, 92) or rng.random() < 0.15) else bytes([c])
            out += b'"' + body + b'"'
        else:
            body = b""
            for _ in range(rng.randint(0, 6)):
                c = rng.choice(bytes(range(32, 127)))
                body += b"\\" + bytes([c]) if (c in (41, 92) or rng.random() < 0.15) else bytes([c])
            out += b"(" + body + b")"
    return out


def fold_line(rng, line):
    """FLine: head + continuation pieces; a fold may be put in front of any inner blank/tab that stands outside quoted strings
    and comments (inside them a CRLF is content, not a fold)"""
    modes = lm_modes(line)
    assert modes is not None, line
    cuts = [i for i in range(1, len(line)) if line[i] in (32, 9) and modes[i] == "plain"]
    chosen = sorted(set(c for c in cuts if rng.random() < 0.35))
    parts, prev = [], 0
    for c in chosen:
        parts.append(line[prev:c]); prev = c
    parts.append(line[prev:])
    return parts[0], parts[1:]


class Peer:
    pass


def gen_peer(rng):
    q = Peer()
    q.method = rng.choice([b"GET", b"POST", b"PUT", b"OPTIONS", rand_from(rng, TOKEN, 1, 7)])
    q.script = rng.choice(SCRIPTS)
    # decoded path
    if q.script:
        dec = b"" if rng.random() < 0.2 else b"/" + bytes(rng.randint(1, 255) for _ in range(rng.randint(0, 12)))
    else:
        # no configured script name may match: first component is not s / a / f
        first = rng.choice([b"x", b"index", b"ss", b"s.html", b"a-1", b"fs", b""])
        dec = b"/" + first + (b"/" + bytes(rng.randint(1, 255) for _ in range(rng.randint(0, 8))) if rng.random() < 0.6 else b"")
    bad = set(range(0, 33)) | set(range(127, 256)) | {63, 35} | LINE_BAD
    q.path = pieces_for(rng, dec, bad, allow_plus=True)
    if dec:
        q.path[0] = Piece("l", 47)      # the '/' after the script name has to be literal (component boundary)
    if not q.script:
        # keep the first component literal so that the script-name search sees what python thinks it sees
        k = 1
        while k < len(dec) and dec[k] != 47:
            q.path[k] = Piece("l", dec[k]); k += 1
    q.dec_path = bytes(p.value() for p in q.path)
    q.get = gen_form(rng, rng.randint(0, 3)) if rng.random() < 0.7 else None
    q.query = form_wire(q.get) if q.get is not None else None
    q.proto = rng.choice([b"HTTP/1.0", b"HTTP/1.1"])
    q.fields, seen = [], set()
    q.cookies = gen_cookies(rng, rng.randint(1, 4), quoted=True, http=True) if rng.random() < 0.6 else None
    nf = rng.randint(0, 6)
    for _ in range(nf):
        name = rand_from(rng, NAME_CHARS, 1, 10)
        canon = name.upper().replace(b"-", b"_")
        if canon in seen or canon in (b"CONTENT_LENGTH", b"CONTENT_TYPE", b"CONNECTION", b"COOKIE", b"HOST", b"EXPECT", b"TRANSFER_ENCODING"):
            continue
        seen.add(canon)
        ws = bytes(rng.choice([32, 9]) for _ in range(rng.randint(0, 3)))
        vis = bytes(c for c in range(33, 127) if c not in LINE_BAD)
        value = b""
        if rng.random() < 0.3:
            value = rich_value(rng)
        elif rng.random() < 0.9:
            value = bytes(rng.choice(vis) for _ in range(1)) + bytes(rng.choice(vis + b"  \t") for _ in range(rng.randint(0, 14)))
        q.fields.append((name, ws, value))
    if q.cookies is not None:
        q.fields.insert(rng.randint(0, len(q.fields)), (rng.choice([b"Cookie", b"cookie", b"COOKIE"]), b" ", cookies_wire(q.cookies)))
    q.body = b""
    if q.script != b"/f" and rng.random() < 0.3:
        q.body = bytes(rng.randint(0, 255) for _ in range(rng.randint(1, 40)))
        q.fields.append((rng.choice([b"Content-Length", b"content-length"]), b" ", str(len(q.body)).encode()))
        q.fields.append((b"Content-Type", b" ", b"text/plain"))
    uri = q.script + b"".join(p.wire() for p in q.path) + (b"?" + q.query if q.query is not None else b"")
    lines = [q.method + b" " + uri + b" " + q.proto] + [n + b":" + ws + v for n, ws, v in q.fields]
    q.flines = [(lines[0], [])] + [fold_line(rng, l) for l in lines[1:]]
    q.wire = b"".join(h + b"".join(b"\r\n" + t for t in tl) + b"\r\n" for h, tl in q.flines) + b"\r\n" + q.body
    return q


def gen_gateway(rng):
    """a gateway's request (SCGI / FastCGI) whose QUERY_STRING and HTTP_COOKIE are written by the peer-side encoders; cookie
    values may be quoted strings with arbitrary bytes (over HTTP the quotes would concern the header parser first)"""
    q = Peer()
    q.gateway = True
    q.get = gen_form(rng, rng.randint(0, 4))
    q.query = form_wire(q.get)
    q.cookies = gen_cookies(rng, rng.randint(1, 5), quoted=True)
    pairs = [(b"CONTENT_LENGTH", b"0"), (b"REQUEST_METHOD", b"GET"), (b"SCRIPT_NAME", rng.choice([b"/s", b"/a"])), (b"PATH_INFO", b"/c"),
             (b"QUERY_STRING", q.query), (b"HTTP_COOKIE", cookies_wire(q.cookies))]
    q.wires = {"scgi": enc_scgi(pairs, b""), "fastcgi": enc_fcgi(pairs, b"")}
    return q


def judge_lines(q, hp, app_kv):
    """the three judge lines for the echo `app_kv` (dict of the canonical app string: env, get, cookies, body)"""
    if getattr(q, "gateway", False):
        return ["J form " + enc_form(q.get) + " " + hxd(q.query) + " " + app_kv["get"],
                "J cookies " + enc_cookies(q.cookies) + " " + hxd(cookies_wire(q.cookies)) + " " + app_kv["cookies"]]
    fields = ",".join(f"{hxd(n)}:{hxd(ws)}:{hxd(v)}" for n, ws, v in q.fields) if q.fields else "-"
    lines = ";".join("|".join([hxd(h)] + [hxd(t) for t in tl]) for h, tl in q.flines)
    query = "-" if q.query is None else hxd(q.query)
    out = ["J peer " + " ".join([hx(x) for x in hp] + [hxd(q.method), hxd(q.script), enc_pieces(q.path), query, hxd(q.proto), fields,
                                                          lines, hxd(q.body), hxd(q.wire), app_kv["env"], app_kv["body"]])]
    if q.get is not None:
        out.append("J form " + enc_form(q.get) + " " + hxd(q.query) + " " + app_kv["get"])
    if q.cookies is not None:
        out.append("J cookies " + enc_cookies(q.cookies) + " " + hxd(cookies_wire(q.cookies)) + " " + app_kv["cookies"])
    return out
