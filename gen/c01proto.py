"""Wire formats for the C01/C02 checks: the *peer's* encoders (HTTP/1.x text, SCGI netstring, FastCGI
records), reply de-framing, and the decoder of the echo application's record stream.
Pure python, no dependency on the model: used to build cases and to read what the real server said."""
import struct

# ---------------------------------------------------------------- FastCGI
FCGI_BEGIN, FCGI_ABORT, FCGI_END, FCGI_PARAMS, FCGI_STDIN, FCGI_STDOUT, FCGI_STDERR, FCGI_DATA, \
    FCGI_GET_VALUES, FCGI_GET_VALUES_RESULT, FCGI_UNKNOWN = range(1, 12)


def fcgi_rec(rtype, rid, content, pad=0, version=1, clen=None, plen=None):
    """one record; clen/plen override the declared lengths (lies)"""
    return struct.pack(">BBHHBB", version & 255, rtype & 255, rid & 0xFFFF,
                       (len(content) if clen is None else clen) & 0xFFFF,
                       (pad if plen is None else plen) & 255, 0) + content + b"\0" * pad


def fcgi_len(n, force4=False):
    if n < 128 and not force4:
        return bytes([n])
    return struct.pack(">I", n | 0x80000000)


def fcgi_pairs(pairs, force4=False):
    out = b""
    for k, v in pairs:
        out += fcgi_len(len(k), force4) + fcgi_len(len(v), force4) + k + v
    return out


def fcgi_begin(rid, role=1, flags=0, pad=0):
    return fcgi_rec(FCGI_BEGIN, rid, struct.pack(">HB5x", role, flags), pad)


def cut(data, cuts):
    """split data at the given offsets (sorted, within range)"""
    res, last = [], 0
    for c in cuts:
        res.append(data[last:c]); last = c
    res.append(data[last:])
    return res


def enc_fcgi(pairs, body, rid=1, keep=False, pcuts=(), scuts=(), pads=None, force4=False):
    """BEGIN, PARAMS* (pairs block cut at pcuts), empty PARAMS, STDIN* (body cut at scuts), empty STDIN.
    pads: iterator of padding lengths (one per record)"""
    pads = iter(pads) if pads is not None else iter(lambda: 0, 1)
    nxt = lambda: next(pads, 0)
    out = fcgi_begin(rid, 1, 1 if keep else 0, nxt())
    pb = fcgi_pairs(pairs, force4)
    for piece in cut(pb, pcuts):
        if piece:
            out += fcgi_rec(FCGI_PARAMS, rid, piece, nxt())
    out += fcgi_rec(FCGI_PARAMS, rid, b"", nxt())
    for piece in cut(body, scuts):
        if piece:
            out += fcgi_rec(FCGI_STDIN, rid, piece, nxt())
    out += fcgi_rec(FCGI_STDIN, rid, b"", nxt())
    return out


def parse_fcgi_reply(data):
    """-> list of (type, request id, content); trailing garbage -> ('junk', 0, bytes)"""
    recs, i = [], 0
    while i + 8 <= len(data):
        ver, t, rid, cl, pl, _ = struct.unpack(">BBHHBB", data[i:i + 8])
        if i + 8 + cl + pl > len(data):
            break
        recs.append((t, rid, data[i + 8:i + 8 + cl]))
        i += 8 + cl + pl
    if i < len(data):
        recs.append(("junk", 0, data[i:]))
    return recs


# ---------------------------------------------------------------- SCGI
def enc_scgi(pairs, body):
    h = b"".join(k + b"\0" + v + b"\0" for k, v in pairs)
    return str(len(h)).encode() + b":" + h + b"," + body


# ---------------------------------------------------------------- HTTP
def enc_http(method, uri, headers, body, version=b"HTTP/1.0"):
    """headers: list of (name, raw value text as it goes on the wire, separator e.g. b': ')"""
    out = method + b" " + uri + b" " + version + b"\r\n"
    for h in headers:
        name, val = h[0], h[1]
        sep = h[2] if len(h) > 2 else b": "
        out += name + sep + val + b"\r\n"
    return out + b"\r\n" + body


# ---------------------------------------------------------------- replies
def parse_cgi_response(data):
    """CGI style: header lines, blank line, body. -> (status int, headers list, body) or None"""
    i = data.find(b"\r\n\r\n")
    if i < 0:
        return None
    head, body = data[:i], data[i + 4:]
    hdrs = []
    status = 200
    for ln in head.split(b"\r\n"):
        k, _, v = ln.partition(b":")
        hdrs.append((k.strip().lower(), v.strip()))
        if k.strip().lower() == b"status":
            try:
                status = int(v.strip().split()[0])
            except Exception:
                status = -1
    return status, hdrs, body


def parse_http_responses(data):
    """sequence of HTTP responses on one connection -> list of (status, headers, body); stops at junk"""
    res, i = [], 0
    while i < len(data):
        j = data.find(b"\r\n\r\n", i)
        if j < 0 or not data.startswith(b"HTTP/1.", i):
            res.append(("junk", [], data[i:])); break
        lines = data[i:j].split(b"\r\n")
        try:
            status = int(lines[0].split()[1])
        except Exception:
            res.append(("junk", [], data[i:])); break
        hdrs = []
        for ln in lines[1:]:
            k, _, v = ln.partition(b":")
            hdrs.append((k.strip().lower(), v.strip()))
        hd = dict(hdrs)
        p = j + 4
        if hd.get(b"transfer-encoding", b"").lower() == b"chunked":
            body = b""
            ok = True
            while True:
                e = data.find(b"\r\n", p)
                if e < 0:
                    ok = False; break
                try:
                    n = int(data[p:e], 16)
                except ValueError:
                    ok = False; break
                p = e + 2
                if n == 0:
                    p += 2 if data[p:p + 2] == b"\r\n" else 0
                    break
                body += data[p:p + n]; p += n + 2
            res.append((status, hdrs, body))
            if not ok:
                break
            i = p
        elif b"content-length" in hd:
            n = int(hd[b"content-length"])
            res.append((status, hdrs, data[p:p + n])); i = p + n
        else:
            res.append((status, hdrs, data[p:])); i = len(data)
    return res


def parse_echo(body):
    """echo application's record stream -> dict(kind, env{}, get[], post[], cookies{}, body, meta{}) or None"""
    r = {"env": {}, "names": {}, "get": [], "post": [], "cookies": {}, "body": None, "meta": {}, "complete": False}
    i = 0
    try:
        while i < len(body):
            tag = chr(body[i]); i += 1
            kl = struct.unpack(">I", body[i:i + 4])[0]; i += 4
            k = body[i:i + kl]; i += kl
            vl = struct.unpack(">I", body[i:i + 4])[0]; i += 4
            v = body[i:i + vl]; i += vl
            if len(k) != kl or len(v) != vl:
                return None
            if tag == "E": r["env"][k] = v
            elif tag == "N": r["names"][k] = v
            elif tag == "G": r["get"].append((k, v))
            elif tag == "P": r["post"].append((k, v))
            elif tag == "C": r["cookies"][k] = tuple(v.split(b"\0"))
            elif tag == "B": r["body"] = v
            elif tag == "M": r["meta"][k.decode()] = v.decode()
            elif tag == "Z": r["complete"] = True
            else: return None
    except Exception:
        return None
    return r if r["complete"] else None


def hx(b):
    return b.hex() if b else "-"
