"""Glue between the service harness (harness/c01.cpp), the Lean driver (c01_model) and the checks:
canonical text of what happened on a connection, from both sides."""
import re, struct
from c01proto import *


def hxd(b):
    return b.hex() if b else "."


def pairs_str(l):
    return ",".join(hxd(k) + ":" + hxd(v) for k, v in l) if l else "-"


def parse_out_line(line):
    """harness output line -> dict"""
    d = {}
    for w in line.split():
        if "=" in w:
            k, v = w.split("=", 1)
            d[k] = v
    return d


def unhex_(s):
    return b"" if s in ("-", ".") else bytes.fromhex(s)


def app_str(e):
    env = sorted(e["env"].items())
    ck = sorted(e["cookies"].items())
    cookies = ",".join(hxd(k) + ":" + ":".join(hxd(x) for x in (list(v) + [b"", b"", b""])[:3]) for k, v in ck) if ck else "-"
    names = sorted(e["names"].items())
    return (f"app kind={e['meta'].get('kind')} env={pairs_str(env)} names={pairs_str(names)} get={pairs_str(e['get'])} post={pairs_str(e['post'])} "
            f"cookies={cookies} body={hxd(e['body'] or b'')}")


def http_params(probe_reply):
    """SERVER_SOFTWARE, SERVER_NAME, SERVER_PORT, REMOTE_ADDR as the embedded server reports them"""
    rs = parse_http_responses(probe_reply)
    e = parse_echo(rs[0][2])
    env = e["env"]
    return [env[b"SERVER_SOFTWARE"], env[b"SERVER_NAME"], env[b"SERVER_PORT"], env[b"REMOTE_ADDR"]]


RAW400 = b"HTTP/1.0 400 Bad Request\r\n\r\n"


def impl_outcomes(api, reply):
    """-> (list of canonical outcome strings, hints string for http)"""
    outs, hints = [], ""
    if api in ("scgi", "fwd"):
        if reply:
            r = parse_cgi_response(reply)
            if r is None:
                outs.append("garbled " + reply[:40].hex())
            else:
                st, hd, body = r
                if st == 200:
                    e = parse_echo(body)
                    outs.append(app_str(e) if e else "garbled-echo")
                else:
                    outs.append(f"status {st}")
    elif api == "http":
        i = 0
        data = reply
        while data:
            if data.startswith(RAW400) and len(data) == len(RAW400):
                outs.append("raw400"); break
            rs = parse_http_responses(data)
            # parse_http_responses handles the whole sequence
            for st, hd, body in rs:
                if st == "junk":
                    if body == RAW400:
                        outs.append("raw400")
                    else:
                        outs.append("garbled " + body[:40].hex())
                elif st == 200:
                    e = parse_echo(body)
                    outs.append(app_str(e) if e else "garbled-echo")
                    hints += "1" if any(k == b"content-length" for k, _ in hd) else "0"
                elif st == 400 and not hd and not body:
                    outs.append("raw400")
                else:
                    outs.append(f"status {st}")
            break
    else:
        recs = parse_fcgi_lenient(reply)
        cur = {}
        for t, rid, content, framed in recs:
            if t == FCGI_STDOUT:
                cur.setdefault(rid, b"")
                cur[rid] += content
            elif t == FCGI_END:
                if rid in cur:
                    r = parse_cgi_response(cur.pop(rid))
                    if len(content) != 8 or content[4] != 0:
                        outs.append("garbled-end " + content.hex())
                    elif r is None:
                        outs.append("garbled-stdout")
                    else:
                        st, hd, body = r
                        if st == 200:
                            e = parse_echo(body)
                            outs.append(app_str(e) if e else "garbled-echo")
                        else:
                            outs.append(f"status {st}")
                else:
                    outs.append(f"mgmt {t} {hxd(content)} framed={1 if framed else 0}")
            elif t == FCGI_GET_VALUES_RESULT:
                outs.append(f"mgmt {t} {hxd(content)} framed={1 if framed else 0}")
            elif t == FCGI_STDOUT:
                pass
            else:
                outs.append(f"garbled-record {t} {hxd(content[:32])}")
        for rid, rest in cur.items():
            outs.append("garbled-unfinished-stdout")
    return outs, hints


def parse_fcgi_lenient(data):
    """like parse_fcgi_reply, but a management reply (GET_VALUES_RESULT, END_REQUEST) whose declared padding
    is not there is accepted with framed=False"""
    recs, i = [], 0
    while i + 8 <= len(data):
        ver, t, rid, cl, pl, _ = struct.unpack(">BBHHBB", data[i:i + 8])
        end = i + 8 + cl + pl
        nxt_ok = end == len(data) or (end + 8 <= len(data) and data[end] == 1 and 1 <= data[end + 1] <= 11)
        if end <= len(data) and nxt_ok:
            recs.append((t, rid, data[i + 8:i + 8 + cl], True)); i = end; continue
        end0 = i + 8 + cl
        if t in (FCGI_END, FCGI_GET_VALUES_RESULT) and end0 <= len(data):
            recs.append((t, rid, data[i + 8:end0], False)); i = end0; continue
        break
    if i < len(data):
        recs.append(("junk", 0, data[i:], False))
    return recs


def impl_canon(api, d):
    """canonical text for one harness output line (dict from parse_out_line)"""
    reply = unhex_(d.get("reply", "-"))
    outs, hints = impl_outcomes(api, reply)
    pre, ready, onerr, eoc = (int(x) for x in d["calls"].split(","))
    return " ; ".join(outs) + f" | pre={pre} ready={ready} onerr={onerr} eoc={eoc}", hints


OUT_RE = re.compile(r" ; ")


def model_canon(line):
    """canonical text for a model output line; returns (text, flags) flags: set of 'crash','multipart'"""
    outs, pre, ready, onerr, eoc, flags = [], 0, 0, 0, 0, set()
    for o in line.split(" ; "):
        o = o.strip()
        if not o:
            continue
        w = o.split()
        kv = dict(x.split("=", 1) for x in w if "=" in x)
        if w[0] == "app":
            ready += 1
            pre += int(kv.get("pre", "0"))
            # C02 cgi_counters: on_end_of_content is delivered exactly to an early-called filter application whose
            # request reaches the application
            eoc += int(kv.get("pre", "0"))
            outs.append(" ".join(x for x in w if not x.startswith("pre=")))
        elif w[0] == "status":
            pre += int(kv.get("pre", "0")); onerr += int(kv.get("onerr", "0"))
            outs.append(f"status {w[1]}")
        elif w[0] == "aborted":
            pre += int(kv.get("pre", "0")); onerr += int(kv.get("onerr", "0"))
        elif w[0] == "crash":
            flags.add("crash"); outs.append(o)
        elif w[0] == "multipart":
            flags.add("multipart"); outs.append(o)
        else:
            outs.append(o)
    return " ; ".join(outs) + f" | pre={pre} ready={ready} onerr={onerr} eoc={eoc}", flags


def split_by_reads(data, reads):
    """the segmentation the server really saw: cut `data` by the observed read sizes; what it never
    read stays as a last segment"""
    segs, i = [], 0
    for r in reads:
        if i >= len(data):
            break
        segs.append(data[i:i + r]); i += r
    if i < len(data):
        segs.append(data[i:])
    return segs


def model_line(api, segs, http_par=None, hints="", concurrency=b"2"):
    hs = " ".join(hx(s) for s in segs if s)
    if api == "scgi":
        return "scgi " + hs
    if api == "fastcgi":
        return f"fastcgi {hx(concurrency)} " + hs
    http_par = http_par or [b"?", b"?", b"?", b"?"]
    return "http " + " ".join(hx(x) for x in http_par) + " " + (hints or "-") + " " + hs
