"""History generators, canonicalisation and the run/judge/shrink plumbing shared by the C07 and
C08 checks (in-memory cache, harness/c07.cpp, lean driver c07_model).

A *history* is a list of case lines starting with `new <backend> <limit> [<segment bytes>]`.
A *stream* is a list of histories run by one harness process (one shared segment size)."""
import os, re

DEFAULT_SHM = 64 << 20


def hx(b):
    return b.hex() if b else "-"


def trig_word(ts):
    return ",".join(("e" if not t else t.hex()) for t in ts) if ts else "-"


def bare(cs):
    """case line without the `@<worker>` prefix of the fork streams; `fork n` counts as `stats`"""
    if cs.startswith("@"):
        cs = cs.split(" ", 1)[1] if " " in cs else ""
    return "stats" if cs.startswith("fork ") else cs


def canon(line):
    """sort the trigger set of a hit, drop the lowmem flag (kept separately by the caller)"""
    w = line.split()
    if w and w[0] == "hit" and len(w) >= 5:
        w[2] = ",".join(sorted(w[2].split(","), key=lambda x: (b"" if x == "e" else bytes.fromhex(x)) if x != "-" else b""))
    return " ".join(x for x in w if x != "lowmem" and not x.startswith("nem="))


# ------------------------------------------------------------------ generators

def new_line(backend, limit, shm):
    return f"new thread {limit}" if backend == "thread" else f"new process {limit} {shm}"


def exhaustive(depth, limits, backends, shm, stride=1, offset=0):
    """all op sequences of length `depth` over a small alphabet: 2 keys (a,b), triggers t,u and the
    key a used as a trigger of b, 3 deadlines, clock ticks; every history ends by fetching both keys"""
    A, B, T, U = b"a", b"b", b"t", b"u"
    ops = [
        ("store", A, b"1", [T], 2), ("store", A, b"2", [], 4), ("store", B, b"3", [T, U], 2),
        ("store", B, b"4", [A], 0), ("fetch", A), ("fetch", B), ("rise", T), ("rise", A),
        ("remove", A), ("clear",), ("tick",),
    ]
    n = len(ops)
    hists = []
    total = n ** depth
    idx = 0
    for code in range(offset, total, stride):
        seq = []
        c = code
        for _ in range(depth):
            seq.append(ops[c % n]); c //= n
        for backend in backends:
            limit = limits[idx % len(limits)]
            idx += 1
            now = 1000
            h = [new_line(backend, limit, shm)]
            for o in seq:
                if o[0] == "tick":
                    now += 2
                    h.append(f"fetch {now} {hx(A)}")
                elif o[0] == "store":
                    h.append(f"store {now} {hx(o[1])} {hx(o[2])} {trig_word(o[3])} {1000 + o[4]} -")
                elif o[0] == "fetch":
                    h.append(f"fetch {now} {hx(o[1])}")
                elif o[0] == "rise":
                    h.append(f"rise {hx(o[1])}")
                elif o[0] == "remove":
                    h.append(f"remove {hx(o[1])}")
                else:
                    h.append("clear")
            h.append(f"fetch {now} {hx(A)}")
            h.append(f"fetch {now} {hx(B)}")
            hists.append(h)
    return hists


def random_history(rng, backend, limit, shm, nops, nkeys, ntrigs, edge=False, big_values=False):
    keys = [b"k%d" % i for i in range(nkeys)]
    trigs = [b"t%d" % i for i in range(ntrigs)] + keys[: max(1, nkeys // 3)]   # some triggers are keys of other entries
    if edge:
        keys += [b"", b"\x00", b"a\x00b", b"\xff" * 3, b"K" * rng.choice((300, 1500))]
        trigs += [b"", b"\x00", b"a\x00b", b"\xff\x00"]
    now = 1000
    h = [new_line(backend, limit, shm)]
    for _ in range(nops):
        r = rng.random()
        # clock: mostly small steps forward, sometimes a jump, sometimes backwards
        c = rng.random()
        if c < 0.35:
            now += rng.randrange(0, 4)
        elif c < 0.38:
            now += rng.randrange(20, 80)
        elif c < 0.42:
            now -= rng.randrange(1, 8)
        if r < 0.40:
            k = rng.choice(keys)
            nt = rng.choice((0, 0, 1, 1, 2, 3, 5))
            ts = [rng.choice(trigs) for _ in range(nt)]       # may repeat, may contain k itself
            if rng.random() < 0.1:
                ts.append(k)
            if edge and rng.random() < 0.3:
                d = rng.choice((0, -1, -(2 ** 63), 2 ** 63 - 1, 2 ** 63 - 1 - 86400, now, now - 1, 1 << 40))
            else:
                d = now + rng.choice((-3, -1, 0, 0, 1, 2, 3, 5, 8, 20, 100))
            if big_values and rng.random() < 0.15:
                v = f"r{rng.randrange(256):02x}x{rng.choice((16, 17, 100, 1000, 5000, 20000))}"
            else:
                v = hx(bytes(rng.randrange(256) for _ in range(rng.choice((0, 1, 3, 8, 15, 16, 40)))))
            g = "-"
            if rng.random() < 0.15:
                g = str(rng.choice((0, 1, 7, 2 ** 64 - 1, rng.randrange(2 ** 64)))) if edge else str(rng.randrange(1000))
            h.append(f"store {now} {hx(k)} {v} {trig_word(ts)} {d} {g}")
        elif r < 0.75:
            h.append(f"fetch {now} {hx(rng.choice(keys))}")
        elif r < 0.87:
            t = rng.choice(trigs + keys)
            h.append("rise " + ("e" if not t else t.hex()))
        elif r < 0.95:
            h.append(f"remove {hx(rng.choice(keys))}")
        elif r < 0.97:
            h.append("clear")
        else:
            h.append("stats")
    for k in keys[:12]:
        h.append(f"fetch {now} {hx(k)}")
    return h


def load_corpus(prop):
    """gen/corpus/<prop>/*.hist : first line `# shm=<bytes> [note]`, then one history"""
    root = os.path.join(os.path.dirname(os.path.abspath(__file__)), "corpus", prop)
    res = []
    if not os.path.isdir(root):
        return res
    for f in sorted(os.listdir(root)):
        if not f.endswith(".hist"):
            continue
        lines = [l.rstrip("\n") for l in open(os.path.join(root, f))]
        shm = DEFAULT_SHM
        body = []
        for l in lines:
            m = re.match(r"#\s*shm=(\d+)", l)
            if m:
                shm = int(m.group(1))
            elif l.strip() and not l.startswith("#"):
                body.append(l.strip())
        res.append((f, shm, body))
    return res


# ------------------------------------------------------------------ running

class Runner:
    """runs streams of histories through harness, model and judge"""

    def __init__(self, c, hbin, model):
        self.c, self.hbin, self.model = c, hbin, model
        self.lowmem_lines = 0

    def annotate(self, cases, shm, keys_oracle=False):
        """pass 1 on the real code: record the allocator's answers the model takes as inputs
        (copyfail; for memory-pressure streams the entry count after a store made under low memory)"""
        rc, out, err = self.c.run_lines(self.hbin, cases, [str(shm)])
        ann = []
        proc = False
        for k, cs in enumerate(cases):
            o = out[k] if k < len(out) else ""
            w = o.split()
            if cs.startswith("new "):
                proc = cs.split()[1] == "process"
            if bare(cs).startswith("store "):
                extra = []
                if "copyfail" in w:
                    extra.append("copyfail")
                elif proc and "|" in w:
                    # allocator outcomes the model takes as inputs: what not_enough_memory() has to answer at each
                    # evaluation of check_limits' guard (computed by the harness from the buddy allocator's state), and
                    # an insertion that failed and emptied the cache (no entry left although the store went on)
                    extra += [x for x in w if x.startswith("nem=")]
                    if keys_oracle and int(w[w.index("|") + 1]) == 0:
                        extra.append("cleared")
                if extra:
                    cs = cs + " " + " ".join(extra)
            if "lowmem" in w:
                self.lowmem_lines += 1
            ann.append(cs)
        return ann

    def run_stream(self, name, hists, shm, keys_oracle=False, nontrivial=None, jprefix="J"):
        """returns dict(cases, hist_of, out_i, out_m, diffs, crashed, jbad)"""
        cases, hist_of = [], []
        for hi, h in enumerate(hists):
            for l in h:
                cases.append(l); hist_of.append(hi)
        cases = self.annotate(cases, shm, keys_oracle)
        seen = []
        def canon_keep(line):
            seen.append(line)      # correspond() canonicalises the implementation's lines first, in order
            return canon(line)
        out_i, out_m, diffs, crashed = self.c.correspond(name, cases, self.hbin, self.model, impl_args=[str(shm)],
                                                         canon=canon_keep, nontrivial=nontrivial)
        # judge: specification run over the implementation's answers (raw answers re-read: canon dropped lowmem,
        # which the judge needs, so run the harness output through again un-canonicalised)
        raw = seen[:len(out_i)]
        jl = [f"{jprefix} {raw[k] if k < len(raw) else 'none'} ; {bare(cases[k])}" for k in range(len(cases))]
        rc, jout, jerr = self.c.run_lines(self.model, jl)
        jbad = [(k, jout[k] if k < len(jout) else "no-judge-output") for k in range(len(cases))
                if not (k < len(jout) and jout[k] == "1")]
        if rc != 0:
            self.c.broke(f"judge crashed on stream {name}", jerr)
        return dict(cases=cases, hist_of=hist_of, out_i=out_i, out_m=out_m, diffs=diffs, crashed=crashed, jbad=jbad, raw=raw)

    def judge_history(self, h, shm, keys_oracle=False, jprefix="J"):
        """(first failing line index | None, verdict, impl outputs, model outputs) for one history"""
        cases = self.annotate(list(h), shm, keys_oracle)
        rc, raw, err = self.c.run_lines(self.hbin, cases, [str(shm)])
        if rc != 0:
            return len(raw), "crash", raw, [], err
        jl = [f"{jprefix} {raw[k] if k < len(raw) else 'none'} ; {bare(cases[k])}" for k in range(len(cases))]
        rc2, jout, jerr = self.c.run_lines(self.model, jl)
        rc3, mout, merr = self.c.run_lines(self.model, cases)
        for k in range(len(cases)):
            if not (k < len(jout) and jout[k] == "1"):
                return k, jout[k] if k < len(jout) else "no-judge-output", raw, mout, ""
        return None, "ok", raw, mout, ""

    def differs(self, h, shm, keys_oracle=False):
        cases = self.annotate(list(h), shm, keys_oracle)
        rc, raw, err = self.c.run_lines(self.hbin, cases, [str(shm)])
        rc3, mout, merr = self.c.run_lines(self.model, cases)
        a = [canon(x) for x in raw]; b = [canon(x) for x in mout]
        return rc != 0 or a != b

    def shrink(self, h, shm, pred, budget=150):
        """greedy delta debugging on the op lines (line 0 = `new …` is kept)"""
        h = list(h)
        chunk = max(1, (len(h) - 1) // 2)
        runs = 0
        while runs < budget:
            i = 1
            progressed = False
            while i < len(h) and runs < budget:
                if any(x.startswith("fork ") for x in h[i:i + chunk]):
                    i += chunk      # the worker processes of a fork history stay
                    continue
                cand = h[:i] + h[i + chunk:]
                runs += 1
                if len(cand) > 1 and pred(cand):
                    h = cand
                    progressed = True
                else:
                    i += chunk
            if chunk == 1 and not progressed:
                break
            if chunk > 1:
                chunk //= 2
        return h


# ------------------------------------------------------------------ C08 generators

FAR_PAST = -(2 ** 62)


def census_lines(keys):
    """`stats`, then fetch every key at a clock value before every deadline (nothing counts as expired)"""
    return ["stats"] + [f"fetch {FAR_PAST} {hx(k)}" for k in keys]


def evict_history(rng, backend, limit, shm, nops):
    """more keys than the limit, deadlines around the clock so that expired-first and LRU-tail evictions interleave"""
    nkeys = limit + rng.choice((1, 2, limit, 2 * limit + 1))
    keys = [b"e%d" % i for i in range(nkeys)]
    trigs = [b"t0", b"t1", keys[0]]
    now = 1000
    h = [new_line(backend, limit, shm)]
    for _ in range(nops):
        c = rng.random()
        if c < 0.4:
            now += rng.randrange(0, 3)
        elif c < 0.43:
            now += rng.randrange(5, 30)
        elif c < 0.46:
            now -= rng.randrange(1, 4)
        r = rng.random()
        if r < 0.5:
            k = rng.choice(keys)
            ts = [rng.choice(trigs) for _ in range(rng.choice((0, 0, 1, 2)))]
            d = now + rng.choice((-2, -1, 0, 1, 1, 2, 3, 3, 6, 50))
            h.append(f"store {now} {hx(k)} {hx(bytes([rng.randrange(256)]))} {trig_word(ts)} {d} -")
        elif r < 0.85:
            h.append(f"fetch {now} {hx(rng.choice(keys))}")
        elif r < 0.9:
            h.append("rise " + rng.choice(trigs).hex())
        elif r < 0.95:
            h.append(f"remove {hx(rng.choice(keys))}")
        elif r < 0.97:
            h.append("clear")
        else:
            h.append("stats")
    return h + census_lines(keys)


def exhaustive_evict(depth, limits, backends, shm, stride=1, offset=0):
    """all sequences over: store a/b/c with a far or a near deadline, fetch a/b/c, tick (+2)"""
    K = [b"a", b"b", b"c"]
    ops = [("store", k, d) for k in K for d in (50, 1)] + [("fetch", k) for k in K] + [("tick",)]
    n = len(ops)
    hists = []
    for code in range(offset, n ** depth, stride):
        seq = []
        c = code
        for _ in range(depth):
            seq.append(ops[c % n]); c //= n
        for backend in backends:
            for limit in limits:
                now = 1000
                h = [new_line(backend, limit, shm)]
                for o in seq:
                    if o[0] == "tick":
                        now += 2
                        h.append("stats")
                    elif o[0] == "store":
                        h.append(f"store {now} {hx(o[1])} {hx(o[1])} - {now + o[2]} -")
                    else:
                        h.append(f"fetch {now} {hx(o[1])}")
                hists.append(h + census_lines(K))
    return hists


def pressure_history(rng, limit, shm, nops):
    """process-shared back-end in a small segment: values up to beyond the per-item share, explicit generations
    (an allocation failure inside the locked section leaves the generation counter in either state)"""
    nkeys = rng.choice((4, 12, 40))
    keys = [b"p%d" % i for i in range(nkeys)]
    trigs = [b"t0", b"t1", b"t2"]
    now = 1000
    g = 0
    h = [new_line("process", limit, shm)]
    # value sizes from 0 to beyond the per-item share of the segment: around the 5 % cap and the 10 % low-memory mark,
    # around shm/limit and the power-of-two block sizes (a block holds 2^k - 17 bytes of value)
    sizes = [0, 10, 16, 100, 1000, 4000, shm // 64, shm // 40, shm // 21, shm // 19, shm // 11, shm // 9, shm // 8 - 5536,
             shm // 8 - 17, shm // 8, shm // 16 - 17, shm // 16 - 16, shm // 4 - 17, shm // 3, shm, 4 * shm]
    for _ in range(nops):
        now += rng.randrange(0, 3)
        r = rng.random()
        if r < 0.6:
            k = rng.choice(keys)
            ts = [rng.choice(trigs) for _ in range(rng.choice((0, 1, 2)))]
            d = now + rng.choice((-1, 0, 2, 5, 100))
            n = rng.choice(sizes)
            if n > 1000:
                n = max(0, n + rng.randrange(-40, 40))
            g += 1
            h.append(f"store {now} {hx(k)} r{rng.randrange(256):02x}x{n} {trig_word(ts)} {d} {g}")
        elif r < 0.85:
            h.append(f"fetch {now} {hx(rng.choice(keys))}")
        elif r < 0.9:
            h.append("rise " + rng.choice(trigs).hex())
        elif r < 0.96:
            h.append(f"remove {hx(rng.choice(keys))}")
        else:
            h.append("clear")
    return h + census_lines(keys)


def fork_history(rng, limit, shm, nops, nworkers):
    """a process-shared cache used from several processes forked after it was created: every line is executed by one
    of the workers (0 = the creating process); the global history is the order of the lines"""
    base = evict_history(rng, "process", limit, shm, nops)
    h = [base[0], f"fork {nworkers}"]
    burst, who = 0, 0
    for l in base[1:]:
        if burst == 0:
            who, burst = rng.randrange(0, nworkers + 1), rng.choice((1, 1, 2, 3, 6))
        burst -= 1
        h.append(f"@{who} {l}")
    return h


def fill_history(rng, limit, shm, cycles, per_cycle):
    """fill / refill with fresh keys and values near the per-item share (the allocator must keep making room by
    evicting the least recently used entries: every fresh store fetchable, survivors = the most recent ones)"""
    vs = rng.choice((shm // 8 - 5536, shm // 8 - 17, shm // 16 - 17, shm // 11, shm // 21, shm // 4 - 17))
    h = [new_line("process", limit, shm)]
    now, g = 1000, 0
    keys = []
    for cy in range(cycles):
        for i in range(per_cycle):
            k = b"c%dk%d" % (cy, i)
            keys.append(k)
            g += 1
            h.append(f"store {now} {hx(k)} r{(97 + i % 26):02x}x{max(0, vs + rng.randrange(-3, 3))} - {now + 1000} {g}")
            if rng.random() < 0.5:
                h.append(f"fetch {now} {hx(k)}")
            if rng.random() < 0.2 and len(keys) > 3:
                h.append(f"fetch {now} {hx(keys[-3])}")
        h.append("stats")
        if rng.random() < 0.7:
            h.append("clear")
    return h + census_lines(keys)


def check_census(cases, raw, hist_of):
    """direct judge of `stats_match_history` on the implementation: at the census block the number of keys that can
    be fetched equals the reported key count and the sizes of their trigger sets add up to the trigger count.
    returns list of (history index, message)"""
    bad = []
    i = 0
    n = len(cases)
    cases = [bare(c) if c.startswith("@") else c for c in cases]
    stored = set()
    while i < n:
        w0 = cases[i].split()
        if w0 and w0[0] == "new":
            stored = set()
        elif w0 and w0[0] == "store" and len(w0) > 2:
            stored.add(w0[2])
        if cases[i] == "stats" and i + 1 < n and cases[i + 1].startswith(f"fetch {FAR_PAST} "):
            w = raw[i].split() if i < len(raw) else []
            j = i + 1
            hits = links = 0
            asked = set()
            while j < n and cases[j].startswith(f"fetch {FAR_PAST} "):
                asked.add(cases[j].split()[2])
                o = raw[j].split() if j < len(raw) else []
                if o and o[0] == "hit":
                    hits += 1
                    links += 0 if o[2] == "-" else len(o[2].split(","))
                j += 1
            if not stored <= asked:
                i = j       # not a complete census (some key that was stored is not asked for): nothing to conclude
                continue
            try:
                keys, tr = int(w[w.index("|") + 1]), int(w[w.index("|") + 2])
                if (keys, tr) != (hits, links):
                    bad.append((hist_of[i], f"stats reports {keys} keys / {tr} triggers but {hits} keys with {links} trigger links can be fetched"))
            except (ValueError, IndexError):
                bad.append((hist_of[i], "unparsable stats line " + " ".join(w)))
            i = j
        else:
            i += 1
    return bad


# ------------------------------------------------------------------ cache_interface histories (harness/c07i.cpp)

def canon_iface(line):
    """the set a recorder returns is printed in std::set order by the harness, in recording order by the model;
    the low-memory flag of the process_shared segment is for the judge only"""
    line = " ".join(x for x in line.split() if x != "lowmem")
    return re.sub(r"detached ([0-9a-fe,]+)", lambda m: "detached " + ",".join(sorted(m.group(1).split(","))), " ".join(line.split()))


def iface_ops(rng, now, frames, trigs, depth_ids, in_page):
    """a short script of interface operations (used stand-alone and inside pages); returns list of word lists"""
    ops = []
    open_ids = []
    for _ in range(rng.randrange(0, 6)):
        r = rng.random()
        if r < 0.3:
            ops.append(["ifetch", str(now), hx(rng.choice(frames)), "1" if rng.random() < 0.15 else "0"])
        elif r < 0.5:
            ts = [rng.choice(trigs) for _ in range(rng.choice((0, 1, 2)))]
            ops.append(["istore", str(now), hx(rng.choice(frames)), hx(bytes([rng.randrange(256)])), trig_word(ts),
                        str(rng.choice((-1, 0, 3, 60))), "1" if rng.random() < 0.3 else "0"])
        elif r < 0.7:
            ops.append(["iadd", rng.choice(trigs).hex()])
        elif r < 0.82 and len(open_ids) < 3:
            i = depth_ids[0]; depth_ids[0] += 1
            open_ids.append(i); ops.append(["iattach", str(i)])
        elif r < 0.92 and open_ids:
            ops.append(["idetach", str(open_ids.pop(rng.randrange(len(open_ids))))])
        elif r < 0.96:
            ops.append(["irise", rng.choice(trigs + frames).hex()])
        else:
            ops.append(["istats"])
    for i in reversed(open_ids):
        if rng.random() < 0.8:
            ops.append(["idetach", str(i)])
    return ops


def iface_many_history(rng, cfg, n):
    """more live entries than the default limit of cache_pool (64): n frames (and a few pages) stored, then every one
    fetched in storing order; `cfg` = the inew line (configured cache.limit: absent, 0 = unlimited, 1, 64, 65, 1000, …)"""
    now = 1000
    h = [cfg]
    keys = [b"m%d" % i for i in range(n)]
    for i, k in enumerate(keys):
        if i % 10 == 9:
            h.append(f"ipage {now} {hx(b'q%d' % i)} -1 {hx(bytes([i % 256]))} ifetch:{now}:{hx(keys[i - 1])}:0")
        h.append(f"istore {now} {hx(k)} {hx(bytes([i % 256, 7]))} {trig_word([b't%d' % (i % 3)]) if i % 4 == 0 else '-'} {rng.choice((-1, 500))} {'1' if i % 2 else '0'}")
    h.append("istats")
    for k in keys:
        h.append(f"ifetch {now + 1} {hx(k)} 1")
    for i in range(9, n, 10):
        h.append(f"ipage {now + 1} {hx(b'q%d' % i)} -1 00 -")
    h.append("irise " + b"t1".hex())
    for k in keys[:: max(1, n // 20)]:
        h.append(f"ifetch {now + 2} {hx(k)} 1")
    return h


def iface_history(rng, cfg, nlines):
    frames = [b"f%d" % i for i in range(rng.choice((2, 4)))]
    pages = [b"p%d" % i for i in range(rng.choice((1, 3)))]
    trigs = [b"t%d" % i for i in range(3)] + frames[:1] + pages[:1]
    ids = [1]
    now = 1000
    h = [cfg]
    for _ in range(nlines):
        now += rng.choice((0, 0, 1, 2, 5))
        r = rng.random()
        if r < 0.45:
            ops = iface_ops(rng, now, frames, trigs, ids, True)
            if rng.random() < 0.35:
                # a prologue in front of fetch_page: triggers recorded / frames stored BEFORE the page lookup still belong
                # to the page that store_page saves (marker F = where fetch_page happens)
                pre = []
                for _ in range(rng.choice((1, 1, 2))):
                    if rng.random() < 0.6:
                        pre.append(["iadd", rng.choice(trigs).hex()])
                    else:
                        ts = [rng.choice(trigs) for _ in range(rng.choice((0, 1, 2)))]
                        pre.append(["istore", str(now), hx(rng.choice(frames)), hx(bytes([rng.randrange(256)])), trig_word(ts),
                                    str(rng.choice((-1, 3, 60))), "0"])
                ops = pre + [["F"]] + ops
            script = ";".join(":".join(o) for o in ops) if ops else "-"
            h.append(f"ipage {now} {hx(rng.choice(pages))} {rng.choice((-1, 2, 60))} {hx(bytes(rng.randrange(256) for _ in range(rng.randrange(0, 6))))} {script}")
        elif r < 0.55:
            h.append("irise " + rng.choice(trigs + frames + pages).hex())
        elif r < 0.58:
            h.append("iclear")
        elif r < 0.62:
            h.append("ireset")
        else:
            for o in iface_ops(rng, now, frames, trigs, ids, False)[:3]:
                h.append(" ".join(o))
    return h


def iface_judge(cases, outs):
    """independent reference for the trigger-recording clause, evaluated on the implementation's answers:
    a page answered `cached` must be valid, i.e. stored by an earlier request, not expired, and none of the
    triggers recorded while it was built (incl. those inherited from fetched frames, and its own key) raised
    since.  Sound for any cache limit (a tracker entry may be evicted in the implementation, never the converse).
    returns list of (line index, message)"""
    bad = []
    frames, pages = {}, {}      # key -> (trigger set, deadline)
    def deadline(now, tmo):
        return None if tmo < 0 else now + tmo
    def live(ent, now):
        return ent is not None and (ent[1] is None or ent[1] >= now)
    def rise(t):
        for d in (frames, pages):
            for k in [k for k, e in d.items() if t in e[0]]:
                del d[k]
    def run_op(w, res, rec, now, recorders=None):
        # rec: the trigger set of the page / interface object; recorders: id -> set recorded in that recorder's scope
        recorders = recorders if recorders is not None else {}
        before = set(rec)
        m = run_op1(w, res, rec, now)
        if w[0] == "iattach":
            recorders[w[1]] = set()
        elif w[0] == "idetach":
            want = recorders.pop(w[1], None)
            if want is not None and res.startswith("detached"):
                got = set() if res.split()[1] == "-" else set(res.split()[1].split(","))
                if not want <= got:
                    return m or f"recorder {w[1]} returned {sorted(got)} although {sorted(want - got)} was recorded in its scope"
        else:
            new = _recorded_by(w, res, now)
            for sset in recorders.values():
                sset.update(new)
        return m
    def _recorded_by(w, res, now):
        if w[0] == "iadd":
            return {w[1]}
        if w[0] == "ifetch" and res.startswith("hit") and w[3] == "0" and live(frames.get(w[2]), now):
            return set(frames[w[2]][0])
        if w[0] == "istore" and w[6] == "0":
            return (set() if w[4] == "-" else set(w[4].split(","))) | {w[2]}
        return set()
    def run_op1(w, res, rec, now):
        if w[0] == "iadd":
            rec.add(w[1])
        elif w[0] == "ifetch" and res.startswith("miss") and unlimited[0] and live(frames.get(w[2]), now):
            return f"frame {w[2]} is live (stored, not expired, no trigger raised) and cache.limit=0 configures no size limit, but the fetch missed"
        elif w[0] == "ifetch":
            if res.startswith("hit") and w[3] == "0":
                ent = frames.get(w[2])
                if live(ent, now):
                    rec.update(ent[0])
                else:
                    return f"frame {w[2]} served although it was invalidated, expired or never stored"
            elif res.startswith("hit") and not live(frames.get(w[2]), now):
                return f"frame {w[2]} served although it was invalidated, expired or never stored"
        elif w[0] == "istore":
            ts = set() if w[4] == "-" else set(w[4].split(","))
            frames[w[2]] = (ts | {w[2]}, deadline(int(w[1]), int(w[5])))
            if w[6] == "0":
                rec.update(ts | {w[2]})
        elif w[0] == "irise":
            rise(w[1])
        elif w[0] == "iclear":
            frames.clear(); pages.clear()
        return None
    glob = set()
    grecs = {}
    unlimited = [False]
    for k, (cs, o) in enumerate(zip(cases, outs)):
        w = cs.split()
        res = o.split("|")[0].strip()
        if "lowmem" in o.split("|")[-1].split():
            # process_shared: the segment ran low (allocator state seen through the check_limits hook): from here on a
            # live entry may legitimately have been evicted although no entry-count limit is configured
            unlimited[0] = False
        if w[0] == "inew":
            frames, pages, glob, grecs = {}, {}, set(), {}
            # configured cache.limit = 0 means "no limit on the number of entries" (a live entry is always found, as long
            # as the allocator of a process_shared segment reports no memory pressure); absent = the back-end's default limit
            unlimited[0] = len(w) > 2 and w[2] == "0" and "lowmem" not in o.split("|")[-1].split()
        elif w[0] == "ipage":
            now, key, tmo = int(w[1]), w[2], int(w[3])
            allops = [] if w[5] == "-" else [x.split(":") for x in w[5].split(";")]
            pre_ops = allops[:allops.index(["F"])] if ["F"] in allops else []
            post_ops = [x for x in (allops[allops.index(["F"]):] if ["F"] in allops else allops) if x != ["F"]]
            pre_rec, pre_recs = set(), {}
            for opw in pre_ops:         # prologue (iadd / istore only: their answer is always `ok`), run before the lookup
                m = run_op(opw, "ok", pre_rec, now, pre_recs)
                if m:
                    bad.append((k, m))
            if res.startswith("cached"):
                ent = pages.get(key)
                if not live(ent, now):
                    bad.append((k, f"page {key} served from the cache although a trigger it depended on was raised, or it expired / was never stored"))
                elif res.split()[1] != ent[2]:
                    bad.append((k, f"page {key} served with a body that is not the one stored"))
            elif res.startswith("built"):
                if unlimited[0] and live(pages.get(key), now):
                    bad.append((k, f"page {key} is live and cache.limit=0 configures no size limit, but it was not served from the cache"))
                rec = pre_rec
                precs = pre_recs
                answers = res.split(None, 1)[1].split(";") if len(res.split(None, 1)) > 1 else []
                answers = answers[len(pre_ops):]
                ops = post_ops
                for i, opw in enumerate(ops):
                    m = run_op(opw, answers[i] if i < len(answers) else "", rec, now, precs)
                    if m:
                        bad.append((k, m))
                ent = (rec | {key, "5f553a" + (key if key != "-" else "")}, deadline(now, tmo), w[4])
                pages[key] = ent
                # store_page happened after the script: a rise inside the script of one of its own triggers does not count
        elif w[0] in ("iadd", "ifetch", "istore", "irise", "iclear", "iattach", "idetach"):
            m = run_op(w, res, glob, int(w[1]) if w[0] in ("ifetch", "istore") else 0, grecs)
            if m:
                bad.append((k, m))
    return bad
