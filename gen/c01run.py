"""Shared pipeline of checks/c01.py and checks/c02.py: play cases on the real services, run the Lean
model on the segmentation the server really saw, canonicalise, diff, build the judge lines."""
import os, sys
from c01proto import *
from c01lib import *
from c01gen import *

PROBE_PAIRS = [(b"REQUEST_METHOD", b"GET"), (b"SCRIPT_NAME", b"/s"), (b"PATH_INFO", b"/probe"), (b"QUERY_STRING", b"x=1"),
               (b"CONTENT_LENGTH", b"0")]
PROBE = {"scgi": enc_scgi(PROBE_PAIRS, b""), "fastcgi": enc_fcgi(PROBE_PAIRS, b""),
         "http": enc_http(b"GET", b"/s/probe?x=1", [], b"")}
APIS = ("scgi", "fastcgi", "http")


class Case:
    __slots__ = ("api", "mode", "segs", "absreq", "tag", "out", "d", "impl", "hints", "model", "mflags", "mline", "reads", "hp", "nreq", "peer", "absreqs")

    def __init__(self, api, mode, segs, absreq=None, tag="", nreq=None):
        self.api, self.mode, self.segs, self.absreq, self.tag = api, mode, [s for s in segs if s], absreq, tag
        self.nreq = nreq
        self.peer = None
        self.absreqs = None     # keep-alive runs: one abstract request per request of the connection
        self.out = self.d = self.impl = self.model = self.mline = None
        self.hints, self.mflags, self.reads, self.hp = "", set(), [], None

    def data(self):
        return b"".join(self.segs)

    def line(self):
        return f"case {self.api} {self.mode} " + " ".join(hx(s) for s in self.segs)

    def replay(self):
        return {"case": self.line(), "tag": self.tag, "bytes": self.data().hex(),
                "observed": {k: v for k, v in (self.d or {}).items() if k != "reply"}, "impl_line": (self.out or "")[:4000],
                "impl": self.impl, "model": self.model, "model_cmd": (self.mline or "")[:4000]}


def load_corpus(root, prop):
    cases = []
    d = os.path.join(root, "gen", "corpus", prop)
    if os.path.isdir(d):
        for f in sorted(os.listdir(d)):
            nreq = None
            for l in open(os.path.join(d, f)):
                if l.startswith("expect nreq="):
                    nreq = int(l.split("=")[1])
                if l.startswith("case "):
                    w = l.split()
                    cases.append(Case(w[1], w[2], [bytes.fromhex(x) for x in w[3:] if x != "-"], tag="corpus:" + f, nreq=nreq))
    return cases


def global_left(c):
    """seconds left of the check's overall budget for playing cases against the real services (all calls together)"""
    import time
    if not hasattr(c, "_play_deadline"):
        c._play_deadline = time.time() + (1500 if getattr(c, "tier", "quick") == "thorough" else 360)
    return c._play_deadline - time.time()


def crash_reason(err):
    """one line for a case that killed (or hung) the harness process"""
    if "HANG" in err:
        return "service stopped answering: the case, its probe or the shutdown of the service did not finish (hang of the real service)"
    if err == "TIMEOUT":
        return "service stopped answering: the harness did not finish within its time budget"
    return "sanitizer abort / crash of the real service: " + " ".join(l.strip() for l in err.splitlines() if "ERROR" in l or "runtime error" in l)[:300]


def run_impl(c, hbin, cases, chunk=400):
    """play the cases (restarting the harness after a sanitizer abort or a hang); fills .out/.d; returns
    (http parameters, list of (case, stderr) for cases that killed the process).  Hard limits: every harness run has a
    timeout, and after `budget` seconds or 6 dead harness processes the remaining cases are abandoned (reported in the
    evidence); a check never waits for a service that hangs."""
    import time
    t_start = time.time()
    budget = global_left(c)
    deaths = 0
    prelude = []
    for api in APIS:
        prelude += [f"setprobe {api} hc {hx(PROBE[api])}", f"probe {api}"]
    crashes = []
    hp = None
    i = 0
    while i < len(cases):
        left = budget - (time.time() - t_start)
        if left <= 0 or deaths >= 6:
            c.extra_cov["abandoned_cases"] = c.extra_cov.get("abandoned_cases", 0) + len(cases) - i
            for x in cases[i:]:
                x.d = None
            break
        batch = cases[i:i + chunk]
        rc, out, err = c.run_lines(hbin, prelude + [x.line() for x in batch], timeout=max(90, min(600, left + 60)))
        hp = None
        if len(out) >= 6:
            try:
                hp = http_params(unhex_(parse_out_line(out[5])["reply"]))
            except Exception:
                hp = None
        got = out[6:]
        if hp is None and len(out) >= 6 and not getattr(c, "_probe_reported", False):
            c._probe_reported = True
            pr = Case("http", "hc", [PROBE["http"]], tag="probe")
            pr.out = out[5]; pr.d = parse_out_line(out[5]); pr.impl = "(the well-formed probe request itself)"
            c.violation("the embedded HTTP server does not answer the well-formed probe request correctly", pr.replay())
        for api_i, api in enumerate(APIS):
            if len(out) >= 6 and api != "http" and parse_out_line(out[2 * api_i + 1]).get("reply", "-") == "-" and not getattr(c, "_probe_reported_" + api, False):
                setattr(c, "_probe_reported_" + api, True)
                pr = Case(api, "hc", [PROBE[api]], tag="probe")
                pr.out = out[2 * api_i + 1]; pr.d = parse_out_line(pr.out); pr.impl = "(the well-formed probe request itself)"
                c.violation(f"the {api} front-end does not answer the well-formed probe request", pr.replay())
        for x, o in zip(batch, got):
            x.out = o
            x.d = parse_out_line(o)
            x.hp = hp
        if len(got) < len(batch):
            bad = batch[len(got)]
            bad.out = "<harness died>"
            bad.d = None
            crashes.append((bad, err[-3500:]))
            deaths += 1
            i += len(got) + 1
        else:
            i += len(batch)
    return hp, crashes


def run_model(c, model, cases, hp):
    """model on the observed segmentation; fills .impl/.hints/.model/.mflags"""
    todo = [x for x in cases if x.d and "calls" in x.d]
    lines = []
    for x in todo:
        x.impl, x.hints = impl_canon(x.api, x.d)
        x.reads = [int(r) for r in x.d["reads"].split(",")] if x.d.get("reads", "-") != "-" else []
        x.mline = model_line(x.api, split_by_reads(x.data(), x.reads), x.hp or hp, x.hints)
        lines.append(x.mline)
    rc, out, err = c.run_lines(model, lines, timeout=3000) if lines else (0, [], "")
    if rc != 0 or len(out) != len(lines):
        c.broke("model driver", f"rc={rc} lines={len(out)}/{len(lines)} {err[-1500:]}")
    for x, o in zip(todo, out):
        x.model, x.mflags = model_canon(o)
    return todo


def c02_judge_line(x):
    d = x.d
    pre, ready, onerr, eoc = (int(v) for v in d["calls"].split(","))
    outs = x.impl.split(" | ")[0].split(" ; ") if x.impl else []
    n200 = sum(1 for o in outs if o.startswith("app "))
    nerr = sum(1 for o in outs if o.startswith("status ") or o == "raw400")
    framed = not any(o.startswith("garbled") or "framed=0" in o for o in outs)
    exc = d.get("exc", "-") != "-"
    # handler calls are counted over the case and the probe that follows it: the probe accounts for exactly one
    # (a worker may still be running the case's request when the probe starts, esp. after a peer reset)
    pcalls = int(d.get("pcalls", "0"))
    probe_ok = d.get("probe") == "ok" and pcalls >= 1
    ready = ready + pcalls - 1 if pcalls >= 1 else ready
    closed = "C" in d.get("flags", "") and "T" not in d.get("flags", "")
    b = lambda v: "1" if v else "0"
    return (f"J c02 {b(exc)} {b(probe_ok)} {b(closed)} {b(x.mode.startswith('rst'))} {pre} {ready} {onerr} {eoc} {n200} {nerr} {b(framed)} "
            + x.mline)


def view_judge_lines_seq(x):
    """keep-alive run: one J view line per request, or None when the number of answered requests is not the number sent"""
    outs = x.impl.split(" | ")[0].split(" ; ") if x.impl else []
    if len(outs) != len(x.absreqs) or not all(o.startswith("app ") for o in outs):
        return None
    return [view_judge_line(x, a, o) for a, o in zip(x.absreqs, outs)]


def view_judge_line(x, absreq=None, o=None):
    """J view line for a well-formed request whose echo came back"""
    r, q, ck = absreq if absreq is not None else x.absreq
    f = absreq_judge_fields(r, q, ck)
    if o is None:
        o = x.impl.split(" | ")[0]
    if not o.startswith("app ") or " ; " in o:
        return None
    kv = dict(w.split("=", 1) for w in o.split()[1:])
    return ("J view " + " ".join([hxd(f["method"]), hxd(f["script"]), hxd(f["path"]), hxd(f["query"]), pairs_str(f["hdrs"]),
                                   pairs_str(f["get"]), pairs_str(f["post"]), pairs_str(f["cookies"]), hxd(f["body"]),
                                   "1" if (r.script == b"/f" and r.body) else "0",
                                   kv["env"], kv["names"], kv["get"], kv["post"], kv["cookies"], kv["body"]]))


FWD_PROBE = PROBE["scgi"]


def gen_fwd_cases(rng, n):
    """cases for the service configured with forwarding.rules (api `fwd`, SCGI): SCRIPT_NAME /fwd is relayed to an in-process
    SCGI backend running the echo application, /dead to a port nobody listens on.
    -> list of (Case, kind) with kind in wf | dead | absurd | truncated"""
    out = []
    ABSURD = [b"9000000000000000000", b"9223372036854775807", b"9223372036854775808", b"99999999999999999999", b"2147483648",
              b"4294967296", b"4294967297", b"8193", b"1000000", b"-1", b"-9223372036854775808", b"-0", b"+5", b" 7", b"0x10", b"1e9"]
    for i in range(n):
        r = gen_absreq(rng)
        r.script = b"/fwd"; r.keep = False
        if r.post is not None and rng.random() < 0.5:
            r.post = None; r.ctype = b"application/octet-stream"
            r.body = bytes(rng.randrange(256) for _ in range(rng.choice([1, 100, 8191, 8192, 8193, 20000, 40000])))
        q = query_string(r, rng); ck = cookie_header(r, rng)
        pairs = cgi_pairs(r, q, ck, rng)
        d = enc_scgi(pairs, r.body)
        for segs in segmentations(rng, d, 1):
            x = Case("fwd", "wt", segs, absreq=(r, q, ck), tag="fwd-wf")
            out.append((x, "wf"))
        # the same request for a backend that is down
        pd = [(k, b"/dead" if k == b"SCRIPT_NAME" else v) for k, v in pairs]
        out.append((Case("fwd", rng.choice(["wt", "hc", "rst"]), segmentations(rng, enc_scgi(pd, r.body), 1)[-1], tag="fwd-dead"), "dead"))
        # absurd / negative / unparsable CONTENT_LENGTH on a forwarded URL, with no or little content behind it
        cl = rng.choice(ABSURD)
        pa = [(k, v) for k, v in pairs if k != b"CONTENT_LENGTH"]
        pa.insert(rng.randrange(len(pa) + 1), (b"CONTENT_LENGTH", cl))
        tail = rng.choice([b"", b"", b"x", rand_bytes(rng, 300, bytes(range(256))), rand_bytes(rng, 9000, bytes(range(256)))])
        out.append((Case("fwd", rng.choice(["hc", "hc", "rst"]), segmentations(rng, enc_scgi(pa, tail), 1)[-1], tag="fwd-absurd-content-length"), "absurd"))
        # the peer goes away in the middle of a forwarded body
        if len(r.body) > 1:
            k = len(d) - rng.randrange(1, len(r.body))
            out.append((Case("fwd", rng.choice(["hc", "rst"]), cut(d[:k], random_cuts(rng, k, rng.choice([0, 1]))), tag="fwd-truncated"), "truncated"))
    return out


def run_fwd(c, hbin, cases):
    """play forwarded cases; fills .out/.d/.impl; returns list of (case, stderr) that killed the harness"""
    crashes, i = [], 0
    prelude = [f"setprobe fwd hc {hx(FWD_PROBE)}", "probe fwd"]
    while i < len(cases):
        batch = cases[i:i + 300]
        if global_left(c) <= 0:
            c.extra_cov["abandoned_cases"] = c.extra_cov.get("abandoned_cases", 0) + len(cases) - i
            break
        rc, out, err = c.run_lines(hbin, prelude + [x.line() for x in batch], timeout=max(90, min(600, global_left(c) + 60)))
        got = out[2:]
        for x, o in zip(batch, got):
            x.out = o; x.d = parse_out_line(o)
            if "calls" in x.d:
                x.impl, _ = impl_canon("fwd", x.d)
        if len(got) < len(batch):
            bad = batch[len(got)]
            bad.out = "<harness died>"; bad.d = None
            crashes.append((bad, err[-3500:]))
            i += len(got) + 1
        else:
            i += len(batch)
    return crashes


def fwd_judge_line(x, kind):
    d = x.d
    outs = x.impl.split(" | ")[0].split(" ; ") if x.impl else []
    answered = len(outs) == 1 and (outs[0].startswith("app ") or outs[0].startswith("status "))
    exc = d.get("exc", "-") != "-"
    probe_ok = d.get("probe") == "ok"
    closed = "C" in d.get("flags", "") and "T" not in d.get("flags", "")
    b = lambda v: "1" if v else "0"
    return f"J fwd {b(exc)} {b(probe_ok)} {b(closed)} {b(x.mode.startswith('rst'))} {b(kind == 'wf')} {b(answered)}"


def pick_diverse(bad, n):
    """representatives of the failing cases: corpus witnesses first, then one per distinct reason, then the rest"""
    seen, first, rest = set(), [], []
    for item in sorted(bad, key=lambda it: (not it[0].tag.startswith("corpus"), len(it[0].data()))):
        key = (item[1][:60], item[0].tag if item[0].tag.startswith("corpus") else "", item[0].api)
        if key in seen:
            rest.append(item)
        else:
            seen.add(key); first.append(item)
    return (first + rest)[:n]


def clone_case(x):
    y = Case(x.api, x.mode, x.segs, absreq=x.absreq, tag=x.tag, nreq=x.nreq)
    y.peer = x.peer
    y.absreqs = x.absreqs
    return y


def confirm_soft(c, hbin, model, bad, judge, attempts=3):
    """`bad`: list of (case, why[, extra]).  Hard evidence (exception out of service::run(), sanitizer abort, the
    decoder model reaching an undefined operation) stands as it is.  Everything else (time-outs, probe mismatch,
    counter mismatches) depends on scheduling on a shared, loaded machine: such a case is re-played in isolation up to
    `attempts` times and kept only if it fails again at least once.  `judge(cases) -> list of (case, why)`."""
    hard, soft = [], []
    for item in bad:
        why = item[1]
        if len(item) > 2 or "exception left" in why or "sanitizer" in why or "undefined operation" in why:
            hard.append(item)
        else:
            soft.append(item)
    confirmed = []
    dropped = 0
    for item in soft[:40]:
        x = item[0]
        again = None
        if global_left(c) <= 0:
            # no time left to re-play: the failure stands as observed
            confirmed.append((x, item[1] + " (not re-played: time budget exhausted)")); continue
        for _ in range(attempts):
            y = clone_case(x)
            hp, crashes = run_impl(c, hbin, [y])
            if crashes:
                again = (y, "sanitizer abort / crash of the real service (on re-play)", crashes[0][1]); break
            done = run_model(c, model, [y], hp)
            res = judge(done)
            if res:
                again = (res[0][0], res[0][1] + " (reproduced on re-play)"); break
        if again:
            confirmed.append(again)
        else:
            dropped += 1
    c.extra_cov["soft_failures_not_reproduced"] = c.extra_cov.get("soft_failures_not_reproduced", 0) + dropped + max(0, len(soft) - 40)
    return hard + confirmed
