#!/usr/bin/env python3
"""C16 extractor: src/md5.cpp + private/sha1.h + src/crypto.cpp -> Cppcms/C16/Gen.lean

Regenerated on every run of the C16 check.  What is taken from the source:
  md5.cpp    T1..T64, the init words, F/G/H/I, ROTATE_LEFT, the two statements of each SET macro,
             all 64 SET(...) lines (register order, k, s, Ti), the byte->word expression, the
             accumulate step, every arithmetic expression / condition / constant of md5_append
             and md5_finish (offset, nbits, high-word increment, carry test, copy length, early
             return test, block loop bound, pad length, pad table, length bytes, digest bytes)
  sha1.h     reset words, left_rotate, byte->word lines, the schedule expression, the four
             (bound, f, k) arms, the temp/rotate expressions, the block size, the 0x80 byte, the
             padding thresholds and the eight length-byte expressions of get_digest
  aes.cpp    (OpenSSL provider) key/IV/block sizes, the size tests of set_key/set_iv, check(), and that
             encrypt/decrypt call AES_cbc_encrypt with iv_enc_/iv_dec_ respectively
  crypto.cpp the digest->bytes expressions of sha1_digets::readout, digest/block sizes of the two
             bundled digests, hmac::init (key test, ipad/opad bytes), key::set_hex / from_hex
Control flow (order of statements, loops, buffer hand-over) is written by hand in Model.lean and
checked here only for its *shape* (regex skeleton); a source that no longer matches is reported
(exit 2) as a broken tie.  C `unsigned int` arithmetic is emitted over Nat with an explicit
`% 2^32` after every + - * << and `~x = 2^32-1-x`; `size_t` arithmetic likewise with 2^64.
"""
import sys, re, os
sys.path.insert(0, os.path.dirname(os.path.abspath(__file__)))
from cexpr import *
import cexpr


class PW(Parser):
    """C unsigned arithmetic of a given width over Nat (every intermediate value reduced)."""
    bits = 32

    def binary(self, lvl):
        M = 2 ** self.bits
        if lvl == len(cexpr.BIN):
            return self.unary()
        lhs = self.binary(lvl + 1)
        while self.peek()[0] == "op" and self.peek()[1] in cexpr.BIN[lvl]:
            op = self.eat()
            rhs = self.binary(lvl + 1)
            if op in cexpr.CMP:
                lhs = f"(decide ({lhs} {cexpr.CMP[op]} {rhs}))"
            elif op in ("+", "*"):
                lhs = f"(({lhs} {op} {rhs}) % {M})"
            elif op == "<<":
                lhs = f"(({lhs} <<< {rhs}) % {M})"
            elif op == "-":
                lhs = f"((({lhs} + {M}) - ({rhs} % {M})) % {M})"
            else:
                lhs = f"({lhs} {cexpr.LEAN_OP[op]} {rhs})"
        return lhs

    def unary(self):
        k, v = self.peek()
        if k == "op" and v == "~":
            self.eat()
            x = self.unary()
            return f"({2 ** self.bits - 1} - ({x} % {2 ** self.bits}))"
        return super().unary()


class PW64(PW):
    bits = 64


def w32(src, rename=None, funcs=None, cls=PW):
    src = re.sub(r"\bmd5_word_t\b", "uint32_t", src)
    src = re.sub(r"\bmd5_byte_t\b", "uint8_t", src)
    src = re.sub(r"static_cast\s*<\s*unsigned\s+char\s*>\s*\(", "(uint8_t)(", src)
    src = re.sub(r"static_cast\s*<\s*unsigned\s+long\s+long\s*>\s*\(", "(unsigned long long)(", src)
    src = src.replace("pms->", "")
    p = cls(tokenize(src), rename, funcs)
    e = p.expr()
    if p.peek()[0] != "eof":
        raise Untranslatable(f"trailing tokens in {src!r}")
    return e


def need(m, what):
    if not m:
        raise Untranslatable(what)
    return m


def const_val(e):
    """evaluate a constant C expression built from hex/dec literals, T_MASK and ^"""
    e = e.strip()
    e = re.sub(r"\bT_MASK\b", "0xffffffff", e)
    if not re.fullmatch(r"[\s()0-9a-fA-FxX^]+", e):
        raise Untranslatable("constant expression " + e)
    return eval(e) & 0xffffffff


def gen_md5(src, w):
    need(re.search(r"#define\s+T_MASK\s+\(\(md5_word_t\)~0\)", src), "T_MASK")
    T = {}
    for m in re.finditer(r"#define\s+T(\d+)\s+(\(T_MASK \^ 0x[0-9a-fA-F]+\)|0x[0-9a-fA-F]+)\s*$", src, re.M):
        T[int(m.group(1))] = const_val(m.group(2))
    if sorted(T) != list(range(1, 65)):
        raise Untranslatable("T1..T64")
    w("def md5T : List Nat := [" + ", ".join(hex(T[i]) for i in range(1, 65)) + "]")

    body = function_body(src, r"md5_process\s*\(\s*md5_state_t\s*\*\s*pms\s*,\s*const\s+md5_byte_t\s*\*\s*data\s*\)\s*\{")
    need(re.search(r"a\s*=\s*pms->abcd\[0\]\s*,\s*b\s*=\s*pms->abcd\[1\]\s*,\s*c\s*=\s*pms->abcd\[2\]\s*,\s*d\s*=\s*pms->abcd\[3\]\s*;", body), "md5_process: register load")
    m = need(re.search(r"xbuf\[i\]\s*=\s*([^;]+);", body), "md5_process: byte->word expression")
    w("/-- `xbuf[i] = xp[0] + (xp[1] << 8) + ...` (the little-endian host reads the same value directly) -/")
    w(f"def md5Word (xp0 xp1 xp2 xp3 : Nat) : Nat := {w32(m.group(1))}")
    need(re.search(r"memcpy\(xbuf,\s*data,\s*64\)", body), "md5_process: block size")
    m = need(re.search(r"#define\s+ROTATE_LEFT\(x,\s*n\)\s+(.+)$", body, re.M), "ROTATE_LEFT")
    w(f"def md5RotL (x n : Nat) : Nat := {w32(m.group(1))}")
    fnames = []
    sets = re.split(r"#undef\s+SET", body)
    if len(sets) != 5:
        raise Untranslatable("md5_process: four rounds expected")
    steps = []
    setdef = None
    for rnd, part in enumerate(sets[:4]):
        m = need(re.search(r"#define\s+([FGHI])\(x,\s*y,\s*z\)\s+(.+)$", part, re.M), f"round {rnd} function")
        fn = m.group(1)
        fnames.append(fn)
        w(f"/-- round {rnd+1}: `{fn}(x,y,z)` -/")
        w(f"def md5F{rnd} (x y z : Nat) : Nat := {w32(m.group(2))}")
        m = need(re.search(r"#define\s+SET\(a,\s*b,\s*c,\s*d,\s*k,\s*s,\s*Ti\)\\\s*\n\s*t\s*=\s*(.+?);\\\s*\n\s*a\s*=\s*(.+)$", part, re.M), f"round {rnd} SET macro")
        texpr, aexpr = m.group(1), m.group(2)
        texpr_n = texpr.replace(f"{fn}(b,c,d)", "fv")
        if "fv" not in texpr_n or re.search(r"\b[FGHI]\(", texpr_n):
            raise Untranslatable(f"round {rnd} SET macro does not use {fn}(b,c,d)")
        cur = (w32(texpr_n, rename={"X": "X"}, funcs={"X": "xsel"}).replace("(xsel k)", "xk"), w32(aexpr, funcs={"ROTATE_LEFT": "md5RotL"}))
        if setdef is None:
            setdef = cur
        elif cur != setdef:
            raise Untranslatable("SET macro differs between rounds (other than the round function)")
        lines = re.findall(r"^\s*SET\(\s*([abcd])\s*,\s*([abcd])\s*,\s*([abcd])\s*,\s*([abcd])\s*,\s*(\d+)\s*,\s*(\d+)\s*,\s*T(\d+)\s*\)\s*;", part, re.M)
        if len(lines) != 16 or len(re.findall(r"^\s*SET\(", part, re.M)) != 16:
            raise Untranslatable(f"round {rnd}: 16 SET lines expected")
        for ra, rb, rc, rd, k, s, ti in lines:
            steps.append((rnd, "abcd".index(ra), "abcd".index(rb), "abcd".index(rc), "abcd".index(rd), int(k), int(s), T[int(ti)]))
    w("/-- `t = ...` of the SET macro (fv = round function of (b,c,d), xk = X[k]) -/")
    w(f"def md5SetT (a fv xk Ti : Nat) : Nat := {setdef[0]}")
    w("/-- `a = ...` of the SET macro -/")
    w(f"def md5SetA (t s b : Nat) : Nat := {setdef[1]}")
    w("/-- the 64 SET lines: (round, register written, three registers read in order b c d, k, s, Ti) -/")
    w("def md5Steps : List (Nat × Nat × Nat × Nat × Nat × Nat × Nat × Nat) := [\n  " +
      ",\n  ".join("(" + ", ".join(str(x) if i < 7 else hex(x) for i, x in enumerate(st)) + ")" for st in steps) + "]")
    acc = re.findall(r"pms->abcd\[(\d)\]\s*\+=\s*([abcd])\s*;", sets[4])
    if acc != [("0", "a"), ("1", "b"), ("2", "c"), ("3", "d")]:
        raise Untranslatable("md5_process: accumulate")
    w(f"def md5Acc (old new : Nat) : Nat := {w32('old + new')}")

    body = function_body(src, r"md5_init\s*\(\s*md5_state_t\s*\*\s*pms\s*\)\s*\{")
    need(re.search(r"pms->count\[0\]\s*=\s*pms->count\[1\]\s*=\s*0\s*;", body), "md5_init: count")
    iv = re.findall(r"pms->abcd\[(\d)\]\s*=\s*([^;]+);", body)
    if [i for i, _ in iv] != ["0", "1", "2", "3"] or "buf" in body:
        raise Untranslatable("md5_init: abcd")
    w("def md5Init : List Nat := [" + ", ".join(hex(const_val(e)) for _, e in iv) + "]")

    body = function_body(src, r"md5_append\s*\(\s*md5_state_t\s*\*\s*pms\s*,\s*const\s+md5_byte_t\s*\*\s*data\s*,\s*int\s+nbytes\s*\)\s*\{")
    pat = (r"\s*const\s+md5_byte_t\s*\*\s*p\s*=\s*data\s*;\s*int\s+left\s*=\s*nbytes\s*;"
           r"\s*int\s+offset\s*=\s*(?P<offset>[^;]+);\s*md5_word_t\s+nbits\s*=\s*(?P<nbits>[^;]+);"
           r"\s*if\s*\(\s*nbytes\s*<=\s*0\s*\)\s*return\s*;"
           r"\s*pms->count\[1\]\s*\+=\s*(?P<hi>[^;]+);\s*pms->count\[0\]\s*\+=\s*nbits\s*;"
           r"\s*if\s*\((?P<carry>[^;{}]+)\)\s*pms->count\[1\]\+\+\s*;"
           r"\s*if\s*\(\s*offset\s*\)\s*\{\s*int\s+copy\s*=\s*(?P<copy>[^;]+);"
           r"\s*memcpy\(pms->buf\s*\+\s*offset\s*,\s*p\s*,\s*copy\)\s*;"
           r"\s*if\s*\((?P<early>[^;{}]+)\)\s*return\s*;\s*p\s*\+=\s*copy\s*;\s*left\s*-=\s*copy\s*;"
           r"\s*md5_process\(pms,\s*pms->buf\)\s*;\s*\}"
           r"\s*for\s*\(\s*;\s*left\s*>=\s*(?P<b1>\d+)\s*;\s*p\s*\+=\s*(?P<b2>\d+)\s*,\s*left\s*-=\s*(?P<b3>\d+)\s*\)\s*md5_process\(pms,\s*p\)\s*;"
           r"\s*if\s*\(\s*left\s*\)\s*memcpy\(pms->buf,\s*p,\s*left\)\s*;\s*")
    m = need(re.fullmatch(pat, body), "md5_append: statement skeleton")
    g = m.groupdict()
    if not (g["b1"] == g["b2"] == g["b3"]):
        raise Untranslatable("md5_append: block loop uses different constants")
    w(f"def md5Offset (count0 : Nat) : Nat := {w32(g['offset'], rename={'count0': 'count0'})}")
    w(f"def md5Nbits (nbytes : Nat) : Nat := {w32(g['nbits'])}")
    w(f"def md5HiInc (nbytes : Nat) : Nat := {w32(g['hi'])}")
    w(f"def md5Carry (count0 nbits : Nat) : Bool := {w32(g['carry'])}")
    w(f"def md5Copy (offset nbytes : Nat) : Nat := {w32(g['copy'])}")
    w(f"def md5EarlyRet (offset copy : Nat) : Bool := {w32(g['early'])}")
    w(f"def md5BlockLen : Nat := {g['b1']}")

    body = function_body(src, r"md5_finish\s*\(\s*md5_state_t\s*\*\s*pms\s*,\s*md5_byte_t\s+digest\[16\]\s*\)\s*\{")
    m = need(re.search(r"static\s+const\s+md5_byte_t\s+pad\[64\]\s*=\s*\{([^}]*)\}\s*;", body), "md5_finish: pad table")
    pad = [int(x, 0) for x in re.findall(r"0x[0-9a-fA-F]+|\d+", m.group(1))]
    if len(pad) != 64:
        raise Untranslatable("md5_finish: pad table length")
    w("def md5Pad : List Nat := " + lean_bytes(pad))
    pat = (r".*md5_byte_t\s+data\[8\]\s*;\s*int\s+i\s*;"
           r"\s*for\s*\(\s*i\s*=\s*0\s*;\s*i\s*<\s*8\s*;\s*\+\+i\s*\)\s*data\[i\]\s*=\s*(?P<lenb>[^;]+);"
           r"\s*md5_append\(pms,\s*pad,\s*(?P<padlen>[^;]+)\)\s*;"
           r"\s*md5_append\(pms,\s*data,\s*8\)\s*;"
           r"\s*for\s*\(\s*i\s*=\s*0\s*;\s*i\s*<\s*16\s*;\s*\+\+i\s*\)\s*digest\[i\]\s*=\s*(?P<dig>[^;]+);\s*")
    m = need(re.fullmatch(pat, body, re.S), "md5_finish: statement skeleton")
    g = m.groupdict()
    w(f"def md5LenByte (count : Nat → Nat) (i : Nat) : Nat := {w32(g['lenb'], funcs={'count': 'count'})}")
    w(f"def md5PadLen (count0 : Nat) : Nat := {w32(g['padlen'])}")
    w(f"def md5DigestByte (abcd : Nat → Nat) (i : Nat) : Nat := {w32(g['dig'], funcs={'abcd': 'abcd'})}")
    w("")


def gen_sha1(src, crypto, w):
    body = function_body(src, r"inline\s+unsigned\s+int\s+left_rotate\s*\(\s*unsigned\s+int\s+x\s*,\s*std::size_t\s+n\s*\)\s*\{")
    m = need(re.fullmatch(r"\s*return\s+([^;]+);\s*", body), "left_rotate")
    w(f"def sha1RotL (x n : Nat) : Nat := {w32(m.group(1))}")
    body = function_body(src, r"inline\s+void\s+sha1::reset\s*\(\s*\)\s*\{")
    iv = re.findall(r"h_\[(\d)\]\s*=\s*(0x[0-9a-fA-F]+)\s*;", body)
    if [i for i, _ in iv] != list("01234") or not re.search(r"block_byte_index_\s*=\s*0\s*;\s*byte_count_\s*=\s*0\s*;", body) or "block_[" in body:
        raise Untranslatable("sha1::reset")
    w("def sha1Init : List Nat := [" + ", ".join(hex(int(e, 16)) for _, e in iv) + "]")

    body = function_body(src, r"inline\s+void\s+sha1::process_byte\s*\(\s*unsigned\s+char\s+byte\s*\)\s*\{")
    m = need(re.fullmatch(r"\s*block_\[block_byte_index_\+\+\]\s*=\s*byte\s*;\s*\+\+byte_count_\s*;\s*if\s*\(\s*block_byte_index_\s*==\s*(\d+)\s*\)\s*\{"
                          r"\s*block_byte_index_\s*=\s*0\s*;\s*process_block\(\)\s*;\s*\}\s*", body), "sha1::process_byte")
    w(f"def sha1BlockLen : Nat := {m.group(1)}")
    body = function_body(src, r"inline\s+void\s+sha1::process_block\s*\(\s*void\s+const\s*\*\s*bytes_begin\s*,\s*void\s+const\s*\*\s*bytes_end\s*\)\s*\{")
    need(re.search(r"for\s*\(\s*;\s*begin\s*!=\s*end\s*;\s*\+\+begin\s*\)\s*\{\s*process_byte\(\*begin\)\s*;\s*\}", body), "sha1::process_block(range)")
    body = function_body(src, r"inline\s+void\s+sha1::process_bytes\s*\(")
    need(re.search(r"process_block\(b,\s*b\+byte_count\)\s*;", body), "sha1::process_bytes")

    body = function_body(src, r"inline\s+void\s+sha1::process_block\s*\(\s*\)\s*\{")
    pat = (r"\s*unsigned\s+int\s+w\[(?P<nw>\d+)\]\s*;\s*for\s*\(\s*std::size_t\s+i\s*=\s*0\s*;\s*i\s*<\s*(?P<n16>\d+)\s*;\s*\+\+i\s*\)\s*\{"
           r"\s*w\[i\]\s*=\s*(?P<w0>[^;]+);\s*w\[i\]\s*\|=\s*(?P<w1>[^;]+);\s*w\[i\]\s*\|=\s*(?P<w2>[^;]+);\s*w\[i\]\s*\|=\s*(?P<w3>[^;]+);\s*\}"
           r"\s*for\s*\(\s*std::size_t\s+i\s*=\s*(?P<s16>\d+)\s*;\s*i\s*<\s*(?P<s80>\d+)\s*;\s*\+\+i\s*\)\s*\{\s*w\[i\]\s*=\s*(?P<sched>[^;]+);\s*\}"
           r"\s*unsigned\s+int\s+a\s*=\s*h_\[0\]\s*;\s*unsigned\s+int\s+b\s*=\s*h_\[1\]\s*;\s*unsigned\s+int\s+c\s*=\s*h_\[2\]\s*;"
           r"\s*unsigned\s+int\s+d\s*=\s*h_\[3\]\s*;\s*unsigned\s+int\s+e\s*=\s*h_\[4\]\s*;"
           r"\s*for\s*\(\s*std::size_t\s+i\s*=\s*0\s*;\s*i\s*<\s*(?P<r80>\d+)\s*;\s*\+\+i\s*\)\s*\{\s*unsigned\s+int\s+f\s*;\s*unsigned\s+int\s+k\s*;"
           r"\s*if\s*\(\s*i\s*<\s*(?P<t0>\d+)\s*\)\s*\{\s*f\s*=\s*(?P<f0>[^;]+);\s*k\s*=\s*(?P<k0>[^;]+);\s*\}"
           r"\s*else\s+if\s*\(\s*i\s*<\s*(?P<t1>\d+)\s*\)\s*\{\s*f\s*=\s*(?P<f1>[^;]+);\s*k\s*=\s*(?P<k1>[^;]+);\s*\}"
           r"\s*else\s+if\s*\(\s*i\s*<\s*(?P<t2>\d+)\s*\)\s*\{\s*f\s*=\s*(?P<f2>[^;]+);\s*k\s*=\s*(?P<k2>[^;]+);\s*\}"
           r"\s*else\s*\{\s*f\s*=\s*(?P<f3>[^;]+);\s*k\s*=\s*(?P<k3>[^;]+);\s*\}"
           r"\s*unsigned\s+temp\s*=\s*(?P<temp>[^;]+);\s*e\s*=\s*d\s*;\s*d\s*=\s*c\s*;\s*c\s*=\s*(?P<newc>[^;]+);\s*b\s*=\s*a\s*;\s*a\s*=\s*temp\s*;\s*\}"
           r"\s*h_\[0\]\s*\+=\s*a\s*;\s*h_\[1\]\s*\+=\s*b\s*;\s*h_\[2\]\s*\+=\s*c\s*;\s*h_\[3\]\s*\+=\s*d\s*;\s*h_\[4\]\s*\+=\s*e\s*;\s*")
    m = need(re.fullmatch(pat, body), "sha1::process_block(): statement skeleton")
    g = m.groupdict()
    if not (g["nw"] == g["s80"] == g["r80"] and g["n16"] == g["s16"]):
        raise Untranslatable("sha1::process_block(): loop bounds disagree")
    sub = lambda e: re.sub(r"block_\[\s*i\s*\*\s*4\s*\+\s*(\d)\s*\]", r"blk\1", e)
    wexpr = f"((({sub(g['w0'])}) | ({sub(g['w1'])})) | ({sub(g['w2'])})) | ({sub(g['w3'])})"
    w("/-- the four `w[i] = / |=` lines of process_block -/")
    w(f"def sha1Word (blk0 blk1 blk2 blk3 : Nat) : Nat := {w32(wexpr)}")
    sched = re.sub(r"w\[\s*i\s*-\s*(\d+)\s*\]", r"wm\1", g["sched"])
    used = sorted({int(x) for x in re.findall(r"wm(\d+)", sched)})
    if used != [3, 8, 14, 16]:
        raise Untranslatable("sha1 schedule taps " + str(used))
    w(f"def sha1Sched (wm3 wm8 wm14 wm16 : Nat) : Nat := {w32(sched, funcs={'left_rotate': 'sha1RotL'})}")
    w(f"def sha1NWords : Nat := {g['nw']}")
    w(f"def sha1NFirst : Nat := {g['n16']}")
    for j in range(4):
        w(f"def sha1F{j} (b c d : Nat) : Nat := {w32(g['f%d' % j])}")
        w(f"def sha1K{j} : Nat := {hex(int(g['k%d' % j].strip(), 16))}")
    w(f"def sha1Bounds : List Nat := [{g['t0']}, {g['t1']}, {g['t2']}]")
    temp = re.sub(r"w\[\s*i\s*\]", "wi", g["temp"])
    w(f"def sha1Temp (a f e k wi : Nat) : Nat := {w32(temp, funcs={'left_rotate': 'sha1RotL'})}")
    w(f"def sha1NewC (b : Nat) : Nat := {w32(g['newc'], funcs={'left_rotate': 'sha1RotL'})}")
    w(f"def sha1Acc (old new : Nat) : Nat := {w32('old + new')}")

    body = function_body(src, r"inline\s+void\s+sha1::get_digest\s*\(\s*digest_type\s+digest\s*\)\s*\{")
    pat = (r"\s*(?:std::size_t|unsigned\s+long\s+long)\s+bit_count\s*=\s*(?P<bc>[^;]+);\s*process_byte\((?P<first>0x[0-9a-fA-F]+)\)\s*;"
           r"\s*if\s*\(\s*block_byte_index_\s*>\s*(?P<p0>\d+)\s*\)\s*\{\s*while\s*\(\s*block_byte_index_\s*!=\s*0\s*\)\s*\{\s*process_byte\(0\)\s*;\s*\}"
           r"\s*while\s*\(\s*block_byte_index_\s*<\s*(?P<p1>\d+)\s*\)\s*\{\s*process_byte\(0\)\s*;\s*\}\s*\}"
           r"\s*else\s*\{\s*while\s*\(\s*block_byte_index_\s*<\s*(?P<p2>\d+)\s*\)\s*\{\s*process_byte\(0\)\s*;\s*\}\s*\}"
           r"(?P<len>(?:\s*process_byte\([^;]*\)\s*;){8})"
           r"\s*digest\[0\]\s*=\s*h_\[0\]\s*;\s*digest\[1\]\s*=\s*h_\[1\]\s*;\s*digest\[2\]\s*=\s*h_\[2\]\s*;\s*digest\[3\]\s*=\s*h_\[3\]\s*;\s*digest\[4\]\s*=\s*h_\[4\]\s*;\s*")
    m = need(re.fullmatch(pat, body), "sha1::get_digest: statement skeleton")
    g = m.groupdict()
    w(f"def sha1BitCount (byte_count_ : Nat) : Nat := {w32(g['bc'], cls=PW64)}")
    w(f"def sha1PadFirst : Nat := {int(g['first'], 16)}")
    w(f"def sha1PadHigh : Nat := {g['p0']}")
    w(f"def sha1PadFill1 : Nat := {g['p1']}")
    w(f"def sha1PadFill2 : Nat := {g['p2']}")
    lens = re.findall(r"process_byte\(\s*(.*?)\s*\)\s*;", g["len"], re.S)
    if len(lens) != 8:
        raise Untranslatable("sha1::get_digest: eight length bytes expected")
    w("/-- arguments of the eight `process_byte(...)` calls that append the message length -/")
    w("def sha1LenBytes (bit_count : Nat) : List Nat := [" + ", ".join(w32(e, cls=PW64) for e in lens) + "]")

    body = function_body(crypto, r"class\s+sha1_digets\s*:\s*public\s+message_digest\s*\{")
    rb = function_body(body, r"virtual\s+void\s+readout\s*\(\s*void\s*\*\s*ptr\s*\)\s*\{")
    m = need(re.search(r"state_\.get_digest\(digets\)\s*;\s*state_\.reset\(\)\s*;.*for\s*\(\s*unsigned\s+i\s*=\s*0\s*;\s*i\s*<\s*5\s*;\s*i\+\+\s*\)\s*\{\s*unsigned\s+block\s*=\s*digets\[i\]\s*;"
                         r"((?:\s*\*out\s*\+\+\s*=\s*[^;]+;){4})\s*\}", rb, re.S), "sha1_digets::readout")
    outs = re.findall(r"\*out\s*\+\+\s*=\s*([^;]+);", m.group(1))
    w("def sha1WordBytes (block : Nat) : List Nat := [" + ", ".join("(" + w32(e) + " % 256)" for e in outs) + "]")
    need(re.search(r"state_\.process_bytes\(ptr,size\)", body), "sha1_digets::append")
    for nm, cls in (("sha1", body), ("md5", function_body(crypto, r"class\s+md5_digets\s*:\s*public\s+message_digest\s*\{"))):
        ds = need(re.search(r"digest_size\(\)\s*const\s*\{\s*return\s+(\d+)\s*;", cls), nm + " digest_size").group(1)
        bs = need(re.search(r"block_size\(\)\s*const\s*\{\s*return\s+(\d+)\s*;", cls), nm + " block_size").group(1)
        w(f"def {nm}DigestSize : Nat := {ds}")
        w(f"def {nm}BlockSize : Nat := {bs}")
    cls = function_body(crypto, r"class\s+md5_digets\s*:\s*public\s+message_digest\s*\{")
    ab = function_body(cls, r"virtual\s+void\s+append\s*\(\s*void\s+const\s*\*\s*ptr\s*,\s*size_t\s+size\s*\)\s*\{")
    m = need(re.fullmatch(r"\s*impl::md5_byte_t\s+const\s*\*\s*p\s*=\s*reinterpret_cast<impl::md5_byte_t const \*>\(ptr\)\s*;"
                          r"\s*size_t\s+const\s+max_chunk\s*=\s*(?P<mc>[^;]+);"
                          r"\s*while\s*\(\s*size\s*>\s*max_chunk\s*\)\s*\{\s*impl::md5_append\(&state_,p,max_chunk\)\s*;\s*p\s*\+=\s*max_chunk\s*;\s*size\s*-=\s*max_chunk\s*;\s*\}"
                          r"\s*impl::md5_append\(&state_,p,size\)\s*;\s*", ab), "md5_digets::append: statement skeleton")
    w("/-- `max_chunk` of `md5_digets::append` -/")
    w(f"def md5MaxChunk : Nat := {w32(m.group('mc'))}")
    need(re.search(r"impl::md5_finish\(&state_,reinterpret_cast<impl::md5_byte_t \*>\(ptr\)\)\s*;\s*impl::md5_init\(&state_\)\s*;", cls), "md5_digets::readout")
    w("")


def gen_hmac_key(crypto, w):
    body = function_body(crypto, r"void\s+hmac::init\s*\(\s*\)\s*\{")
    pat = (r"\s*unsigned\s+const\s+block_size\s*=\s*md_->block_size\(\)\s*;"
           r"\s*std::vector<unsigned char>\s+ipad\(block_size,0\)\s*;\s*std::vector<unsigned char>\s+opad\(block_size,0\)\s*;"
           r"\s*if\s*\((?P<cond>[^{}]+)\)\s*\{\s*md_->append\(key_\.data\(\),key_\.size\(\)\)\s*;\s*md_->readout\(&ipad\.front\(\)\)\s*;"
           r"\s*memcpy\(&opad\.front\(\),&ipad\.front\(\),md_->digest_size\(\)\)\s*;\s*\}"
           r"\s*else\s*\{\s*memcpy\(&ipad\.front\(\),key_\.data\(\),key_\.size\(\)\)\s*;\s*memcpy\(&opad\.front\(\),key_\.data\(\),key_\.size\(\)\)\s*;\s*\}"
           r"\s*for\s*\(\s*unsigned\s+i\s*=\s*0\s*;\s*i\s*<\s*block_size\s*;\s*i\+\+\s*\)\s*\{\s*ipad\[i\]\s*\^=\s*(?P<ip>0x[0-9a-fA-F]+)\s*;\s*opad\[i\]\s*\^=\s*(?P<op>0x[0-9a-fA-F]+)\s*;\s*\}"
           r"\s*md_opad_->append\(&opad\.front\(\),block_size\)\s*;\s*md_->append\(&ipad\.front\(\),block_size\)\s*;"
           r"\s*ipad\.assign\(block_size,0\)\s*;\s*opad\.assign\(block_size,0\)\s*;\s*")
    m = need(re.fullmatch(pat, body), "hmac::init: statement skeleton")
    cond = m.group("cond").replace("key_.size()", "key_size")
    w(f"def hmacKeyHashed (key_size block_size : Nat) : Bool := {c_to_lean(cond)}")
    w(f"def hmacIpad : Nat := {int(m.group('ip'), 16)}")
    w(f"def hmacOpad : Nat := {int(m.group('op'), 16)}")
    body = function_body(crypto, r"void\s+hmac::readout\s*\(\s*void\s*\*\s*ptr\s*\)\s*\{")
    need(re.fullmatch(r"\s*std::vector<unsigned char>\s+digest\(md_->digest_size\(\),0\)\s*;\s*md_->readout\(&digest\.front\(\)\)\s*;"
                      r"\s*md_opad_->append\(&digest\.front\(\),md_->digest_size\(\)\)\s*;\s*md_opad_->readout\(ptr\)\s*;"
                      r"\s*digest\.assign\(md_->digest_size\(\),0\)\s*;\s*init\(\)\s*;\s*", body), "hmac::readout: statement skeleton")
    body = function_body(crypto, r"void\s+hmac::append\s*\(")
    need(re.search(r"md_->append\(ptr,size\)\s*;", body), "hmac::append")

    body = function_body(crypto, r"unsigned\s+key::from_hex\s*\(\s*char\s+c\s*\)\s*\{")
    arms = re.findall(r"if\s*\(([^;{}]*?)\)\s*return\s+([^;]+);", body)
    last = need(re.search(r"return\s+([^;]+);\s*$", body.strip()), "from_hex")
    if len(arms) != 3:
        raise Untranslatable("from_hex arms")
    chain = ""
    for c, e in arms:
        chain += f"if {c_to_lean(c)} then {w32(e)} else "
    chain += w32(last.group(1))
    w(f"def fromHex (c : Nat) : Nat := {chain}")
    body = function_body(crypto, r"void\s+key::set_hex\s*\(\s*char\s+const\s*\*\s*ptr\s*,\s*size_t\s+len\s*\)\s*\{")
    pat = (r"\s*reset\(\)\s*;\s*if\s*\(\s*len\s*==\s*0\s*\)\s*return\s*;\s*if\s*\((?P<odd>[^{}]+)\)\s*\{\s*throw\s+booster::invalid_argument\([^;]*\)\s*;\s*\}"
           r"\s*for\s*\(\s*unsigned\s+i\s*=\s*0\s*;\s*i\s*<\s*len\s*;\s*i\+\+\s*\)\s*\{\s*char\s+c\s*=\s*ptr\[i\]\s*;\s*if\s*\((?P<ok>[^{};]+)\)\s*\{\s*continue\s*;\s*\}"
           r"\s*throw\s+booster::invalid_argument\([^;]*\)\s*;\s*\}"
           r"\s*size_\s*=\s*len\s*/\s*2\s*;\s*data_\s*=\s*new\s+char\[size_\]\s*;"
           r"\s*for\s*\(\s*unsigned\s+h\s*=\s*0\s*,\s*b\s*=\s*0\s*;\s*h\s*<\s*len\s*;\s*h\s*\+=\s*2\s*,\s*b\+\+\s*\)\s*\{\s*data_\[b\]\s*=\s*(?P<byte>[^;]+);\s*\}\s*")
    m = need(re.fullmatch(pat, body), "key::set_hex: statement skeleton")
    w(f"def hexOddLen (len : Nat) : Bool := {c_to_lean(m.group('odd'))}")
    w(f"def hexCharOk (c : Nat) : Bool := {c_to_lean(m.group('ok'))}")
    be = m.group("byte").replace("ptr[h+1]", "lo").replace("ptr[h]", "hi")
    w(f"def hexByte (hi lo : Nat) : Nat := ({w32(be, funcs={'from_hex': 'fromHex'})}) % 256")
    body = function_body(crypto, r"void\s+key::read_from_file\s*\(\s*std::string\s+const\s*&\s*file_name\s*\)\s*\{")
    m = need(re.search(r"if\s*\(\s*size\s*==\s*0\s*\)\s*\{\s*throw\s+booster::runtime_error\([^;]*\)\s*;\s*\}.*"
                       r"int\s+i\s*;\s*for\s*\(\s*i\s*=\s*buf_size\s*-\s*1\s*;\s*i\s*>=\s*0\s*;\s*i--\s*\)\s*\{\s*if\s*\((?P<ws>[^{};]+)\)\s*continue\s*;\s*break\s*;\s*\}"
                       r"\s*size_t\s+real_size\s*=\s*i\s*\+\s*1\s*;\s*set_hex\(buf,real_size\)\s*;", body, re.S), "key::read_from_file: shape")
    w(f"def keyFileWs (c : Nat) : Bool := {c_to_lean(m.group('ws').replace('buf[i]', 'c'))}")
    w("")


def gen_cbc(aes, w):
    m = need(re.search(r"#elif\s+defined\s+CPPCMS_HAVE_OPENSSL(.*?)typedef\s+openssl_aes_encryptor\s+aes_encryption_provider\s*;", aes, re.S), "aes.cpp: OpenSSL provider")
    cls = m.group(1)
    ks = need(re.search(r"unsigned\s+key_size\(\)\s*const\s*\{\s*return\s+([^;]+);\s*\}", cls), "cbc key_size").group(1)
    bs = need(re.search(r"unsigned\s+block_size\(\)\s*const\s*\{\s*return\s+(\d+)\s*;\s*\}", cls), "cbc block_size").group(1)
    body = function_body(cls, r"void\s+set_key\s*\(\s*key\s+const\s*&\s*k\s*\)\s*\{")
    need(re.search(r"if\s*\(\s*k\.size\(\)\s*!=\s*key_size\(\)\s*\)\s*throw\s+booster::invalid_argument\(", body), "cbc set_key size test")
    body = function_body(cls, r"void\s+set_iv\s*\(\s*void\s+const\s*\*\s*ptr\s*,\s*size_t\s+size\s*\)\s*\{")
    need(re.search(r"if\s*\(\s*size\s*!=\s*sizeof\(iv_enc_\)\s*\)\s*throw\s+booster::invalid_argument\(", body), "cbc set_iv size test")
    SLOT = {"iv_enc_": 0, "iv_dec_": 1}
    m = need(re.fullmatch(r"\s*if\s*\(\s*size\s*!=\s*sizeof\(iv_enc_\)\s*\)\s*throw\s+booster::invalid_argument\([^;]*\)\s*;"
                          r"(?P<copies>(?:\s*memcpy\(\w+,ptr,size\)\s*;)*)\s*iv_initialized_\s*=\s*true\s*;\s*", body), "cbc set_iv: statement skeleton")
    targets = re.findall(r"memcpy\((\w+),ptr,size\)", m.group("copies"))
    if any(t not in SLOT for t in targets):
        raise Untranslatable("cbc set_iv copies into " + str(targets))
    iv = need(re.search(r"unsigned\s+char\s+iv_enc_\[(\d+)\]\s*;\s*unsigned\s+char\s+iv_dec_\[(\d+)\]\s*;", cls), "cbc iv arrays")
    if iv.group(1) != iv.group(2):
        raise Untranslatable("cbc iv arrays differ in size")
    body = function_body(cls, r"void\s+set_nonce_iv\s*\(\s*\)\s*\{")
    gens = re.findall(r"rnd\.generate\((\w+),sizeof\((\w+)\)\)\s*;", body)
    if [g[0] for g in gens] != ["iv_enc_", "iv_dec_"] or any(a != b for a, b in gens) or not re.search(r"iv_initialized_\s*=\s*true\s*;", body):
        raise Untranslatable("cbc set_nonce_iv")
    body = function_body(cls, r"void\s+reset\s*\(\s*\)\s*\{")
    if not (re.search(r"memset\(iv_dec_,0,sizeof\(iv_dec_\)\)\s*;", body) and re.search(r"memset\(iv_enc_,0,sizeof\(iv_(enc|dec)_\)\)\s*;", body)
            and re.search(r"iv_initialized_\s*=\s*false\s*;", body)):
        raise Untranslatable("cbc reset()")
    body = function_body(cls, r"void\s+check\s*\(\s*\)\s*\{")
    need(re.fullmatch(r"\s*if\s*\(\s*key_\.size\(\)\s*==\s*0\s*\)\s*throw\s+booster::runtime_error\([^;]*without key[^;]*\)\s*;"
                      r"\s*if\s*\(\s*!iv_initialized_\s*\)\s*throw\s+booster::runtime_error\([^;]*without initial vector[^;]*\)\s*;\s*", body), "cbc check()")
    calls = {}
    for fn, sched, setk, flagv in (("encrypt", "key_enc_", "AES_set_encrypt_key", "encryption_initialized_"),
                                   ("decrypt", "key_dec_", "AES_set_decrypt_key", "decryption_initialized_")):
        body = function_body(cls, r"virtual\s+void\s+" + fn + r"\s*\(\s*void\s+const\s*\*\s*in\s*,\s*void\s*\*\s*out\s*,\s*unsigned\s+len\s*\)\s*\{")
        # the whole body: check(); lazy key schedule; exactly one AES_cbc_encrypt(in, out, len, &<schedule>, <ivec>, <direction>)
        m = need(re.fullmatch(r"\s*check\(\)\s*;\s*if\s*\(\s*!" + flagv + r"\s*\)\s*\{\s*" + setk +
                              r"\(reinterpret_cast<unsigned char const \*>\(key_\.data\(\)\),\s*type_,\s*&" + sched + r"\)\s*;\s*" + flagv + r"\s*=\s*true\s*;\s*\}"
                              r"\s*AES_cbc_encrypt\(\s*reinterpret_cast<unsigned char const \*>\(in\)\s*,\s*reinterpret_cast<unsigned char \*>\(out\)\s*,\s*len\s*,"
                              r"\s*&" + sched + r"\s*,\s*(?P<ivec>\w+)\s*,\s*(?P<dir>AES_ENCRYPT|AES_DECRYPT)\s*\)\s*;\s*", body),
                 "cbc " + fn + ": statement skeleton (check, key schedule, one AES_cbc_encrypt on a member IV)")
        if m.group("ivec") not in SLOT:
            raise Untranslatable(f"cbc {fn}: AES_cbc_encrypt is given {m.group('ivec')} as ivec, not one of the object's running IVs")
        calls[fn] = (SLOT[m.group("ivec")], m.group("dir") == "AES_ENCRYPT")
    w("/-- the object's IV members: 0 = `iv_enc_`, 1 = `iv_dec_`.  `set_iv` copies the caller's IV into these, in this order -/")
    w("def cbcSetIvTargets : List Nat := " + lean_bytes([SLOT[t] for t in targets]))
    w("/-- which member `encrypt` / `decrypt` hand to `AES_cbc_encrypt` as the in/out `ivec`, and the direction flag (true = AES_ENCRYPT) -/")
    w(f"def cbcEncIvec : Nat := {calls['encrypt'][0]}")
    w(f"def cbcEncDir : Bool := {'true' if calls['encrypt'][1] else 'false'}")
    w(f"def cbcDecIvec : Nat := {calls['decrypt'][0]}")
    w(f"def cbcDecDir : Bool := {'true' if calls['decrypt'][1] else 'false'}")
    w(f"def cbcKeySize (type_ : Nat) : Nat := {c_to_lean(ks)}")
    w(f"def cbcBlockSize : Nat := {bs}")
    w(f"def cbcIvSize : Nat := {iv.group(1)}")
    w("")


def main(repo, lean):
    md5 = strip_c_comments(open(os.path.join(repo, "src/md5.cpp")).read())
    sha1 = strip_c_comments(open(os.path.join(repo, "private/sha1.h")).read())
    crypto = strip_c_comments(open(os.path.join(repo, "src/crypto.cpp")).read())
    aes = strip_c_comments(open(os.path.join(repo, "src/aes.cpp")).read())
    o = []
    w = o.append
    w("/- GENERATED by translate/c16.py from src/md5.cpp, private/sha1.h, src/crypto.cpp, src/aes.cpp. Do not edit. -/")
    w("set_option linter.unusedVariables false\nnamespace Cppcms.C16.Gen\n")
    gen_md5(md5, w)
    gen_sha1(sha1, crypto, w)
    gen_hmac_key(crypto, w)
    gen_cbc(aes, w)
    w("end Cppcms.C16.Gen")
    path = os.path.join(lean, "Cppcms", "C16", "Gen.lean")
    changed = write_if_changed(path, "\n".join(o) + "\n")
    print(("rewrote " if changed else "unchanged ") + path)


if __name__ == "__main__":
    try:
        main(sys.argv[1], sys.argv[2])
    except Untranslatable as e:
        print("UNTRANSLATABLE: " + str(e))
        sys.exit(2)
