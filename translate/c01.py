#!/usr/bin/env python3
"""C01/C02 extractor: src/scgi_api.cpp, src/fastcgi_api.cpp, src/http_api.cpp, private/http_parser.h,
private/http_protocol.h, src/http_request.cpp, src/cgi_api.cpp  ->  Cppcms/C01/Gen.lean

What is regenerated (so that an edit of the source re-runs the proofs against it):
  * SCGI: eager read size, ':' / ',' characters, the three guard expressions of on_first_read and the
    resize expression, presence of the NUL termination before the strlen walk;
  * FastCGI: record-type / role / flag / status enums, header field layout, sizeof(fcgi_request_body),
    read_len (guards + length expression), parse_pairs bound checks, PARAMS accumulation limit, cache
    minimum, arguments of the unknown-role body_.assign, padding reset of short replies;
  * HTTP: separator() set, tocken range, the whole parser::step() transition (every state arm is
    translated statement by statement into a Lean function), the two 16 KiB caps, request-line split
    characters, header-name canonicalisation, special header names, environment variable names;
  * request layer: the guard chain of request::on_content_start up to post_data.resize;
  * exit discipline: in every protocol callback each completion-handler call `h(...)` and each start of
    a further asynchronous operation must be followed by `return` (or end the function).

Exit 2 (message on stdout) when the source no longer has the expected shape: a broken tie."""
import sys, re, os
sys.path.insert(0, os.path.dirname(os.path.abspath(__file__)))
from cexpr import *


def rd(repo, rel):
    return strip_c_comments(open(os.path.join(repo, rel)).read())


def need(m, what):
    if not m:
        raise Untranslatable(what)
    return m


def lean_str_bytes(s):
    return lean_bytes(c_string_bytes(s))


# ----------------------------------------------------------------------------------------------
# small functions whose Lean model is written by hand (lean/Cppcms/C01/Request.lean, Http.lean, Cgi.lean): the model is
# valid for exactly this source text.  Any edit of one of them is reported as a broken tie (the hand-written model has to
# be re-validated against the new text and the pin updated); what *is* regenerated from these functions (constants,
# guards) is extracted separately below.
# ----------------------------------------------------------------------------------------------
PINNED = {
    "protocol::skip_ws": "c0bbf4bc6fb9c8cd",
    "protocol::tocken": "47860161359f250f",
    "protocol::unquote": "f3b7bc12c15b940d",
    "skip_after_period": "0a7f943ea75d0918",
    "request::read_key_value": "25873f40fdaade8e",
    "request::parse_cookies": "9a19363d659e8cc5",
    "request::parse_form_urlencoded": "382ac804bb189a1f",
    "request::get_buffer": "d06805e5cc2c0e47",
    "util::urldecode": "6d7b574f2b877254",
    "http::parse_single_header": "18de83e0cf4451f8",
    "context::on_headers_ready": "15b89fe8400588ca",
}


def pin(name, body):
    import hashlib
    norm = re.sub(r"\s+", " ", body).strip()
    h = hashlib.sha1(norm.encode()).hexdigest()[:16]
    if os.environ.get("C01_PRINT_PINS"):
        print("PIN", name, h)
        return
    if PINNED.get(name) != h:
        raise Untranslatable(f"{name}: the source text changed (pin {PINNED.get(name)} -> {h}); its Lean model is hand-written "
                             f"and has to be re-validated against the new text")



# ----------------------------------------------------------------------------------------------
# calls that can fail with a system error, in the protocol classes and the acceptor
# ----------------------------------------------------------------------------------------------
SYS_METHODS = ["open", "close", "shutdown", "local_endpoint", "remote_endpoint", "set_option", "get_option", "bind", "listen",
               "read_some", "write_some", "bytes_readable", "set_non_blocking", "set_non_blocking_if_needed", "connect", "accept"]
KEYWORDS = {"if", "for", "while", "switch", "catch", "return", "sizeof"}


def functions_of(text):
    """(name, body start, body end) of every function-like definition (brace matched); nested ones included"""
    res = []
    for m in re.finditer(r"(~?[A-Za-z_]\w*)\s*\((?:[^(){};]|\((?:[^(){};]|\([^(){};]*\))*\))*\)\s*(?:const\s*)?(?::\s*[^{};]*?)?\{", text):
        name = m.group(1)
        if name in KEYWORDS:
            continue
        i = m.end() - 1
        depth, j = 0, i
        while j < len(text):
            if text[j] == "{":
                depth += 1
            elif text[j] == "}":
                depth -= 1
                if depth == 0:
                    break
            j += 1
        res.append((name, i, j, m.group(0)))
    return res


def sys_call_sites(rel, text, classes):
    """list of (file, function, method, nothrow, checked, constructor/destructor)"""
    fns = functions_of(text)
    out = []
    for m in re.finditer(r"((?:\w+\s*=\s*)?)((?:api->)?\w*socket_|acceptor_|asio_socket_|socket\(\))\s*(?:\.|->)\s*(" + "|".join(SYS_METHODS) + r")\s*\(", text):
        # the argument list
        k, depth = m.end() - 1, 0
        while True:
            if text[k] == "(":
                depth += 1
            elif text[k] == ")":
                depth -= 1
                if depth == 0:
                    break
            k += 1
        args = text[m.end():k]
        enclosing = [f for f in fns if f[1] < m.start() < f[2]]
        if not enclosing:
            raise Untranslatable(f"{rel}: call of {m.group(3)} outside any function")
        # innermost named function that is not a lambda/struct helper operator
        name, b0, b1, header = max(enclosing, key=lambda f: f[1])
        body = text[b0:b1]
        ecs = set(re.findall(r"booster::system::error_code\s+(\w+)\s*;", body)) | set(re.findall(r"booster::system::error_code\s*&\s*(\w+)", header))
        last = args.split(",")[-1].strip() if args.strip() else ""
        nothrow = last in ecs
        # checked: the statement that follows the call tests the error code before anything else happens
        rest = text[k + 1:b1]
        rest = rest[rest.index(";") + 1:] if ";" in rest else ""
        checked = nothrow and re.match(r"\s*if\s*\(\s*" + re.escape(last) + r"\s*\)", rest) is not None
        out.append((rel, name, m.group(3), nothrow, checked, name in classes or name.startswith("~")))
    return out

# ----------------------------------------------------------------------------------------------
# exit discipline of callbacks
# ----------------------------------------------------------------------------------------------
CONT_CALLS = ["h", "async_read_headers", "async_read_record", "async_send_respnse", "async_read_some_headers",
              "process_request", "error_response", "stdin_eof_expected", "params_record_expected",
              "async_read_some", "async_read_from_socket", "socket_.async_read", "socket_.async_read_some",
              "socket_.async_write", "socket_.on_readable", "socket_.get_io_service().post", "cb"]


def split_statements(body):
    """very small C statement splitter: returns list of (kind, text, children) for a brace-balanced body.
    kinds: 'simple' (text ends at ';'), 'block' (if/else/for/while/switch header + children), 'label'"""
    i, n, out = 0, len(body), []
    while i < n:
        if body[i].isspace():
            i += 1; continue
        m = re.match(r"(case\s+[^:]+|default)\s*:", body[i:])
        if m and not body[i:].startswith("default_"):
            out.append(("label", m.group(0), [])); i += m.end(); continue
        m = re.match(r"(if|for|while|switch)\s*\(", body[i:])
        if m or body.startswith("else", i) or body[i] == "{":
            hdr_start = i
            if m:
                j = i + m.end() - 1
                depth = 0
                while True:
                    if body[j] == "(":
                        depth += 1
                    elif body[j] == ")":
                        depth -= 1
                        if depth == 0:
                            break
                    j += 1
                j += 1
            elif body[i] == "{":
                j = i
            else:
                j = i + 4
            hdr = body[hdr_start:j].strip()
            while j < n and body[j].isspace():
                j += 1
            if body.startswith("if", j) and hdr == "else" and re.match(r"if\s*\(", body[j:]):
                # else if: treat the rest as one nested statement
                sub, k = take_statement(body, j)
                out.append(("block", hdr, split_statements(sub))); i = k; continue
            if j < n and body[j] == "{":
                depth, k = 0, j
                while True:
                    if body[k] == "{":
                        depth += 1
                    elif body[k] == "}":
                        depth -= 1
                        if depth == 0:
                            break
                    k += 1
                out.append(("block", hdr, split_statements(body[j + 1:k]))); i = k + 1
            else:
                sub, k = take_statement(body, j)
                out.append(("block", hdr, split_statements(sub))); i = k
            continue
        sub, k = take_statement(body, i)
        out.append(("simple", sub.strip(), [])); i = k
    return out


def take_statement(body, i):
    """one statement starting at i (simple up to ';' at depth 0, or a compound one)"""
    m = re.match(r"(if|for|while|switch)\s*\(", body[i:])
    if m or body[i] == "{":
        # find end of compound statement by delegating to split on a growing window
        j = i
        if m:
            j = i + m.end() - 1
            depth = 0
            while True:
                if body[j] == "(":
                    depth += 1
                elif body[j] == ")":
                    depth -= 1
                    if depth == 0:
                        break
                j += 1
            j += 1
            while body[j].isspace():
                j += 1
        if body[j] == "{":
            depth, k = 0, j
            while True:
                if body[k] == "{":
                    depth += 1
                elif body[k] == "}":
                    depth -= 1
                    if depth == 0:
                        break
                k += 1
            k += 1
        else:
            _, k = take_statement(body, j)
        # swallow a following else
        r = k
        while r < len(body) and body[r].isspace():
            r += 1
        if body.startswith("else", r) and not (body[r + 4:r + 5].isalnum() or body[r + 4:r + 5] == "_"):
            r2 = r + 4
            while body[r2].isspace():
                r2 += 1
            _, k = take_statement(body, r2)
        return body[i:k], k
    depth, k = 0, i
    while k < len(body):
        c = body[k]
        if c in "([{":
            depth += 1
        elif c in ")]}":
            depth -= 1
        elif c == ";" and depth == 0:
            return body[i:k + 1], k + 1
        k += 1
    raise Untranslatable("unterminated statement: " + body[i:i + 40])


def check_tail_calls(stmts, fname):
    """Exit discipline: after a continuation call (completion handler `h(...)`, start of the next
    asynchronous operation, hand-over to another callback) control must reach `return;` or the end of
    the function without executing anything else.  Returns the offending call texts."""
    bad = []
    CALL = re.compile(r"((?:[A-Za-z_][\w]*(?:\(\))?(?:\.|->))*[A-Za-z_]\w*)\s*\(")

    def is_else(st):
        return st[0] == "block" and (st[1] == "else" or st[1].startswith("else"))

    def walk(lst, cont):
        # cont: what is executed after falling off the end of lst: "end" | "return" | "loop" | "other"
        for idx, (kind, text, children) in enumerate(lst):
            # statement that follows this one
            j = idx + 1
            if kind == "block":
                while j < len(lst) and is_else(lst[j]):
                    j += 1
            if j < len(lst):
                nk, nt, _ = lst[j]
                if nk == "simple" and re.fullmatch(r"return\s*;", nt):
                    nxt = "return"
                else:
                    nxt = "other"
            else:
                nxt = cont
            if kind == "block":
                if re.match(r"(for|while)\b", text):
                    walk(children, "loop")
                else:
                    walk(children, nxt)
            elif kind == "simple":
                m = CALL.match(text)
                if m and m.group(1) in CONT_CALLS and nxt not in ("return", "end"):
                    bad.append(re.sub(r"\s+", " ", text)[:80] + f"   [then: {nxt}]")
    walk(stmts, "end")
    return bad


# ----------------------------------------------------------------------------------------------
# callbacks of the protocol independent layer -> CStmt programs
# ----------------------------------------------------------------------------------------------
class CgiTranslator:
    """Bodies of connection::on_headers_read / set_error / handle_http_error / handle_http_error_eof /
    load_content / on_some_content_read, context::on_request_ready, request::on_error as `CStmt` terms
    (lean/Cppcms/C01/CgiSyntax.lean).  Control flow is translated generically (statement order, if/else nesting,
    return, fall-through); simple statements are mapped to primitives by the table STMTS, the operands of the
    conditions to fields of `CVars` by the table OPERANDS (the Boolean structure goes through cexpr).  A statement
    or operand that is not in the tables is a broken tie."""

    STMTS = [
        (r"return;", ".ret"),
        (r"set_error\(h,[^;]*\);", ".call .set_error"),
        (r"h\(http::context::operation_aborted\);", ".call .h_aborted"),
        (r"h\(http::context::operation_completed\);", ".call .h_completed"),
        (r"load_content\(context,h\);", ".call .load_content"),
        (r"handle_http_error\(status,context,h\);", ".call .handle_http_error"),
        (r"async_read_some\(buffer\.first,buffer\.second,mfunc_to_io_handler\(&connection::on_some_content_read,self\(\),context,h\)\);",
         ".call .async_read_some"),
        (r"async_write\(booster::aio::buffer\(async_chunk_\),(true|false),mfunc_to_event_handler\(&connection::handle_http_error_eof,self\(\),code,h\)\);",
         lambda m: f".call (.async_write {m.group(1)})"),
        (r"f->async_run\(\);", ".call .forward"),
        (r"dispatch\(app,d->matched,false\);", ".call .dispatch"),
        (r"submit_to_pool_internal\(pool,d->matched,true\);", ".call .submit_to_pool"),
        (r"forwarder::address_typeaddr=service\(\)\.forwarder\(\)\.check_forwading_rules\(env_http_host\(\),env_script_name\(\),env_path_info\(\)\);",
         ".call .check_forwarding"),
        (r"intstatus=context->on_content_progress\(n\);", ".call .on_content_progress"),
        (r"std::pair<char\*,size_t>buffer=context->request\(\)\.get_buffer\(\);", ".call .get_buffer"),
        (r"on_async_read_complete\(\);", ".call .on_async_read_complete"),
        (r"do_eof\(\);", ".call .do_eof"),
        (r"context->response\(\)\.status\(code\);", ".call .set_status"),
        (r"error_state_=true;", ".call .set_error_state"),
        (r"app\.swap\(d->app\);", ".call .take_app"),
        (r"request\(\)\.on_error\(\);", ".call .request_on_error"),
        (r"d->filter->on_error\(\);", ".call .filter_on_error"),
        # without an effect on what the model observes
        (r"error_=s;", '.call (.nop "error_=s")'),
        (r"booster::shared_ptr<cgi_forwarder>f\(newcgi_forwarder\(self\(\),addr\.first,addr\.second\)\);", '.call (.nop "new cgi_forwarder")'),
        (r"async_chunk_\.clear\(\);", '.call (.nop "async_chunk_.clear")'),
        (r"std::ostringstreamss;", '.call (.nop "ss")'),
        (r"context->response\(\)\.write_http_headers\(\);", '.call (.nop "write_http_headers")'),
        (r"cppcms::http::response::make_error_response_html_body\(code,ss\);", '.call (.nop "make_error_response_html_body")'),
        (r"async_chunk_\+=ss\.str\(\);", '.call (.nop "async_chunk_+=")'),
        (r"booster::system::error_codee;", '.call (.nop "error_code e")'),
        (r"context->response\(\)\.flush_async_chunk\(e\);", '.call (.nop "flush_async_chunk")'),
        (r"intstatus=0;", '.call (.nop "status=0")'),
        (r"booster::shared_ptr<application_specific_pool>pool;", '.call (.nop "pool")'),
        (r"booster::intrusive_ptr<application>app;", '.call (.nop "app")'),
        (r"pool\.swap\(d->pool\);", '.call (.nop "pool.swap")'),
        (r"context_guardg\(app\.get\(\),\*this\);", '.call (.nop "context_guard")'),
        (r"app->assign_context\(self\(\)\);", '.call (.nop "assign_context")'),
    ]
    OPERANDS = [
        ("context->response().some_output_was_written()", "v_someOutput"),
        ("context->request().content_length()", "v_contentLength"),
        ("addr.first.empty()", "v_addrHostEmpty"),
        ("addr.second", "v_addrPort"),
        ("buffer.second", "v_bufSecond"),
        ("d->no_on_error", "v_noOnError"),
        ("d->filter", "v_filter"),
    ]
    IDS = {"e": "v.e", "status": "v.status", "error": "v.error", "app": "v.app", "v_someOutput": "v.someOutput",
           "v_contentLength": "v.contentLength", "v_addrHostEmpty": "v.addrHostEmpty", "v_addrPort": "v.addrPort",
           "v_bufSecond": "v.bufSecond", "v_noOnError": "v.noOnError", "v_filter": "v.filter"}

    def cond(self, text):
        t = re.sub(r"\s+", "", text)
        for a, b in self.OPERANDS:
            t = t.replace(a, b)
        ids = set(re.findall(r"[A-Za-z_]\w*", t))
        for i in ids:
            if i not in self.IDS:
                raise Untranslatable("cgi layer: unknown operand in condition `" + text.strip() + "`")
        return "(fun v => " + c_to_lean(t, rename=self.IDS) + ")"

    def strip_try(self, body, fname):
        """`try { A } catch(..) { B }` -> `{ A }`; the handlers may only log"""
        out, i = "", 0
        while True:
            m = re.search(r"\bcatch\s*\(", body[i:])
            if not m:
                out += body[i:]; break
            out += body[i:i + m.start()]
            j = body.index("{", i + m.end())
            depth, k = 0, j
            while True:
                if body[k] == "{":
                    depth += 1
                elif body[k] == "}":
                    depth -= 1
                    if depth == 0:
                        break
                k += 1
            handler = body[j + 1:k]
            for st in split_statements(handler):
                if st[0] != "simple" or not st[1].startswith("BOOSTER_ERROR"):
                    raise Untranslatable(f"cgi layer: {fname}: an exception handler does more than logging")
            i = k + 1
        return re.sub(r"\btry\b", "", out)

    def seq(self, stmts, fname):
        parts, i = [], 0
        while i < len(stmts):
            kind, text, children = stmts[i]
            if kind == "simple":
                t = re.sub(r"\s+", "", text)
                for pat, res in self.STMTS:
                    m = re.fullmatch(pat, t)
                    if m:
                        parts.append(res(m) if callable(res) else res); break
                else:
                    raise Untranslatable(f"cgi layer: {fname}: unknown statement `{re.sub(chr(10), ' ', text.strip())[:100]}`")
                i += 1
            elif kind == "block":
                if text == "":
                    parts.append(self.seq(children, fname)); i += 1; continue
                m = re.match(r"if\s*\((.*)\)$", text, re.S)
                if not m:
                    raise Untranslatable(f"cgi layer: {fname}: unsupported block `{text[:60]}`")
                els = ".skip"
                nxt = i + 1
                if nxt < len(stmts) and stmts[nxt][0] == "block" and stmts[nxt][1] == "else":
                    els = self.seq(stmts[nxt][2], fname); nxt += 1
                c = m.group(1)
                pre = None
                ma = re.fullmatch(r"\s*\(\s*status\s*=\s*context->on_headers_ready\(\)\s*\)\s*(!=\s*0)\s*", c)
                if ma:
                    pre = ".call .on_headers_ready"; c = "status " + ma.group(1)
                it = f".ite {self.cond(c)} {self.seq(children, fname)} {els}"
                if pre:
                    parts.append(pre)
                parts.append("(" + it + ")")
                i = nxt
            else:
                raise Untranslatable(f"cgi layer: {fname}: label")
        if not parts:
            return ".skip"
        e = parts[-1]
        for p in reversed(parts[:-1]):
            e = f".seq ({p}) ({e})" if not e.startswith("(") else f".seq ({p}) {e}"
        return "(" + e + ")" if not e.startswith("(") else e

    def function(self, src, sig, fname):
        body = self.strip_try(function_body(src, sig), fname)
        return self.seq(split_statements(body), fname)


# ----------------------------------------------------------------------------------------------
# parser::step() -> Lean
# ----------------------------------------------------------------------------------------------
class StepTranslator:
    """Translates the body of `switch(state_)` in http::impl::parser::step().
    Output: a Lean function  stepByte (st : PState) (c : Nat) : PStep
    PState = {state bc : Nat, rhdr : List Nat (reversed header_)}; PStep = .cont st' (append c) | .ret code st' unget
    Supported statements: state_=X; bracket_counter_++/--; header_.clear(); header_.resize(header_.size()-K);
    ungetc(c); return K; break; if(cond) stmt [else stmt]; switch(c){case 'x': ... default: ...}"""

    def __init__(self, states, rets):
        self.states = states
        self.rets = rets

    def cond(self, text):
        return c_to_lean(text, rename={"bracket_counter_": "s.bc"})

    def seq(self, stmts, k, brk=None):
        """translate statement list; k = Lean expr (in terms of `s`) for 'fell off the end'.
        every produced expression has type PStep and may refer to the current state as `s`."""
        if not stmts:
            return k
        kind, text, children = stmts[0]
        rest = stmts[1:]
        if kind == "simple":
            t = re.sub(r"\s+", "", text)
            m = re.fullmatch(r"state_=(\w+);", t)
            if m:
                if m.group(1) not in self.states:
                    raise Untranslatable("unknown parser state " + m.group(1))
                return f"(let s := {{ s with state := {self.states[m.group(1)]} }}; {self.seq(rest, k, brk)})"
            if t == "bracket_counter_++;":
                return f"(let s := {{ s with bc := s.bc + 1 }}; {self.seq(rest, k, brk)})"
            if t == "bracket_counter_--;":
                return f"(let s := {{ s with bc := s.bc - 1, under := s.under || (s.bc == 0) }}; {self.seq(rest, k, brk)})"
            if t == "header_.clear();":
                return f"(let s := {{ s with rhdr := [] }}; {self.seq(rest, k, brk)})"
            m = re.fullmatch(r"header_\.resize\(header_\.size\(\)-(\d+)\);", t)
            if m:
                n = m.group(1)
                return (f"(let s := {{ s with under := s.under || decide (s.rhdr.length < {n}), "
                        f"rhdr := s.rhdr.drop {n} }}; {self.seq(rest, k, brk)})")
            if t == "ungetc(c);":
                return f"(let s := {{ s with unget := true }}; {self.seq(rest, k, brk)})"
            m = re.fullmatch(r"return(\w+);", t)
            if m:
                if m.group(1) not in self.rets:
                    raise Untranslatable("unknown step() result " + m.group(1))
                return f"(PStep.ret {self.rets[m.group(1)]} s)"
            if t == "break;":
                if brk is None:
                    raise Untranslatable("parser::step: break outside a switch arm")
                return brk
            raise Untranslatable("parser::step: unsupported statement " + text)
        if kind == "block":
            m = re.match(r"if\s*\((.*)\)$", text, re.S)
            if m:
                # optional else
                els = []
                if rest and rest[0][0] == "block" and rest[0][1] == "else":
                    els = rest[0][2]; rest2 = rest[1:]
                else:
                    rest2 = rest
                kk = self.seq(rest2, k, brk)
                a = self.seq(children, kk, brk)
                b = self.seq(els, kk, brk)
                return f"(if {self.cond(m.group(1))} then {a} else {b})"
            m = re.match(r"switch\s*\(\s*c\s*\)$", text)
            if m:
                after = self.seq(rest, k, brk)
                return self.switch_c(children, after)
            raise Untranslatable("parser::step: unsupported block " + text)
        raise Untranslatable("parser::step: stray label " + text)

    def switch_c(self, children, after):
        """inner switch(c): arms end with break (-> `after`) or return"""
        arms, cur_labels, cur = [], [], []
        default = None
        for st in children:
            if st[0] == "label":
                if cur:
                    raise Untranslatable("parser::step: fall-through between inner case arms")
                cur_labels.append(st[1])
            else:
                cur.append(st)
                t = re.sub(r"\s+", "", st[1]) if st[0] == "simple" else ""
                if t == "break;" or t.startswith("return"):
                    arms.append((cur_labels, cur)); cur_labels, cur = [], []
        if cur_labels or cur:
            arms.append((cur_labels, cur))   # last arm without break
        expr = None
        chain = []
        for labels, body in arms:
            body2 = [b for b in body if not (b[0] == "simple" and re.sub(r"\s+", "", b[1]) == "break;")]
            e = self.seq(body2, after, after)
            vals = []
            isdef = False
            for lb in labels:
                m = re.match(r"case\s+('(?:\\.|[^'\\])')\s*:", lb)
                if m:
                    vals.append(char_val(m.group(1)))
                elif lb.startswith("default"):
                    isdef = True
                else:
                    raise Untranslatable("parser::step: inner label " + lb)
            if isdef:
                default = e
            if vals:
                chain.append((vals, e))
        if default is None:
            default = after
        expr = default
        for vals, e in reversed(chain):
            c = " || ".join(f"c == {v}" for v in vals)
            expr = f"(if {c} then {e} else {expr})"
        return expr

    def outer(self, children):
        """children of switch(state_): labels + statement lists, each arm ends with break/return"""
        arms, cur_labels, cur = [], [], []
        for st in children:
            if st[0] == "label":
                if cur:
                    raise Untranslatable("parser::step: fall-through between state arms")
                cur_labels.append(st[1])
            else:
                cur.append(st)
                t = re.sub(r"\s+", "", st[1]) if st[0] == "simple" else ""
                if t == "break;" or t.startswith("return"):
                    arms.append((cur_labels, cur)); cur_labels, cur = [], []
        if cur_labels or cur:
            raise Untranslatable("parser::step: last state arm does not end with break/return")
        out = {}
        for labels, body in arms:
            body2 = body[:-1] if re.sub(r"\s+", "", body[-1][1]) == "break;" else body
            e = self.seq(body2, "(PStep.cont s)", "(PStep.cont s)")
            for lb in labels:
                m = need(re.match(r"case\s+(\w+)\s*:", lb), "state label " + lb)
                if m.group(1) not in self.states:
                    raise Untranslatable("unknown state label " + m.group(1))
                out[m.group(1)] = e
        for s in self.states:
            if s not in out:
                raise Untranslatable("parser::step: no arm for state " + s)
        return out


def main(repo, lean):
    scgi = rd(repo, "src/scgi_api.cpp")
    fcgi = rd(repo, "src/fastcgi_api.cpp")
    http = rd(repo, "src/http_api.cpp")
    pars = rd(repo, "private/http_parser.h")
    proto = rd(repo, "private/http_protocol.h")
    req = rd(repo, "src/http_request.cpp")
    util = rd(repo, "src/util.cpp")
    smap = rd(repo, "private/string_map.h")
    cgi = rd(repo, "src/cgi_api.cpp")
    ctx = rd(repo, "src/http_context.cpp")
    # hand-modelled functions: pinned source text
    pin("protocol::skip_ws", function_body(proto, r"It\s+skip_ws\s*\(\s*It\s+p\s*,\s*It\s+end\s*\)"))
    pin("protocol::tocken", function_body(proto, r"It\s+tocken\s*\(\s*It\s+begin\s*,\s*It\s+end\s*\)"))
    pin("protocol::unquote", function_body(proto, r"std::string\s+unquote\s*\(\s*It\s*&\s*begin\s*,\s*It\s+end\s*\)"))
    pin("skip_after_period", function_body(req, r"void\s+skip_after_period\s*\("))
    pin("request::read_key_value", function_body(req, r"bool\s+request::read_key_value\s*\("))
    pin("request::parse_cookies", function_body(req, r"bool\s+request::parse_cookies\s*\("))
    pin("request::parse_form_urlencoded", function_body(req, r"bool\s+request::parse_form_urlencoded\s*\("))
    pin("request::get_buffer", function_body(req, r"request::get_buffer\s*\(\s*\)"))
    pin("util::urldecode", function_body(util, r"std::string\s+urldecode\s*\(\s*char\s+const\s*\*\s*begin\s*,\s*char\s+const\s*\*\s*end\s*\)\s*\{"))
    pin("http::parse_single_header", function_body(http, r"virtual\s+bool\s+parse_single_header\s*\("))
    pin("context::on_headers_ready", function_body(ctx, r"int\s+context::on_headers_ready\s*\(\s*\)"))
    o = []
    w = o.append
    w("/- GENERATED by translate/c01.py from src/scgi_api.cpp, src/fastcgi_api.cpp, src/http_api.cpp, "
      "private/http_parser.h, private/http_protocol.h, src/http_request.cpp, src/util.cpp, private/string_map.h, "
      "src/cgi_api.cpp, src/http_context.cpp. Do not edit. -/")
    w("import Cppcms.C01.CgiSyntax")
    w("set_option linter.unusedVariables false\nnamespace Cppcms.C01.Gen\n")

    # ============================================================ SCGI
    w("/-! ## SCGI (src/scgi_api.cpp) -/")
    b = function_body(scgi, r"virtual\s+void\s+async_read_headers\s*\(\s*handler\s+const\s*&\s*h\s*\)\s*\{")
    m = need(re.search(r"buffer_\.resize\(\s*(\d+)\s*\)\s*;\s*socket_\.async_read\(\s*io::buffer\(buffer_\)", b), "scgi async_read_headers shape")
    w(f"def scgiFirstRead : Nat := {m.group(1)}")
    b = function_body(scgi, r"void\s+on_first_read\s*\(")
    m = need(re.search(r"sep_\s*=\s*std::find\(\s*buffer_\.begin\(\)\s*,\s*buffer_\.begin\(\)\s*\+\s*n\s*,\s*('(?:\\.|[^'\\])')\s*\)\s*-\s*buffer_\.begin\(\)\s*;", b), "scgi ':' search")
    w(f"def scgiSepChar : Nat := {char_val(m.group(1))}")
    m = need(re.search(r"if\s*\(\s*(sep_[^)]*)\)\s*\{\s*h\(booster::system::error_code\(errc::protocol_violation,cppcms_category\)\);\s*return;\s*\}\s*"
                       r"buffer_\[sep_\]\s*=\s*0\s*;\s*int\s+len\s*=\s*atoi\(\s*&buffer_\.front\(\)\s*\)\s*;\s*"
                       r"if\s*\(\s*([^{]*?)\)\s*\{\s*h\(booster::system::error_code\(errc::protocol_violation,cppcms_category\)\);\s*return;\s*\}\s*"
                       r"size_t\s+size\s*=\s*n\s*;\s*buffer_\.resize\(\s*([^;]*?)\)\s*;[^;]*?"
                       r"if\s*\(\s*([^{]*?)\)\s*\{[^}]*?h\(booster::system::error_code\(errc::protocol_violation,cppcms_category\)\);\s*return;\s*\}\s*"
                       r"socket_\.async_read\(\s*io::buffer\(\s*&buffer_\[size\]\s*,\s*buffer_\.size\(\)\s*-\s*size\s*\)", b, re.S), "scgi on_first_read shape")
    sepbad, lenbad, newsize, tooshort = [x.strip() for x in m.groups()]
    w(f"/-- `if({sepbad})` -/\ndef scgiSepBad (sep_ : Nat) : Bool := {c_to_lean(sepbad)}")
    w(f"/-- `if({lenbad})`, `len` is an `int` -/\ndef scgiLenBad (len : Int) : Bool := {c_to_lean(lenbad)}")
    w(f"/-- `buffer_.resize({newsize})` (computed in `size_t`; `len` is known to be non-negative here) -/\n"
      f"def scgiNewSize (sep_ : Int) (len : Int) : Int := {c_to_lean(newsize)}")
    ts = tooshort.replace("buffer_.size()", "bufsize")
    w(f"/-- `if({tooshort})` -/\ndef scgiTooShort (bufsize size : Nat) : Bool := {c_to_lean(ts)}")
    b = function_body(scgi, r"void\s+on_headers_chunk_read\s*\(")
    m = need(re.search(r"if\s*\(\s*buffer_\.back\(\)\s*!=\s*('(?:\\.|[^'\\])')\s*\)\s*\{\s*buffer_\.back\(\)\s*=\s*0\s*;[^}]*?return;\s*\}(.*?)char\s+const\s*\*\s*p\s*=\s*&buffer_\[\s*sep_\s*\+\s*1\s*\]\s*;", b, re.S), "scgi ',' check")
    w(f"def scgiTermChar : Nat := {char_val(m.group(1))}")
    nul = re.search(r"buffer_\.back\(\)\s*=\s*0\s*;", m.group(2)) is not None
    w(f"/-- the header block is NUL-terminated (`buffer_.back() = 0`) before the `strlen` walk -/\ndef scgiNulTerminated : Bool := {'true' if nul else 'false'}")
    need(re.search(r"while\s*\(\s*p\s*<\s*&buffer_\.back\(\)\s*\)\s*\{\s*char\s*\*\s*key\s*=\s*pool_\.add\(p\)\s*;\s*p\s*\+=\s*strlen\(p\)\s*\+\s*1\s*;\s*"
                   r"if\s*\(\s*p\s*>=\s*&buffer_\.back\(\)\s*\)\s*break\s*;\s*char\s*\*\s*value\s*=\s*pool_\.add\(p\)\s*;\s*p\s*\+=\s*strlen\(p\)\s*\+\s*1\s*;\s*env_\.add\(key,value\)\s*;\s*\}", b), "scgi pair walk shape")
    w("")

    # ============================================================ FastCGI
    w("/-! ## FastCGI (src/fastcgi_api.cpp) -/")
    enums = {}
    for em in re.finditer(r"enum\s*\{([^}]*)\}", fcgi):
        for item in em.group(1).split(","):
            mm = re.match(r"\s*(fcgi_\w+)\s*=\s*(\d+)\s*$", item)
            if mm:
                enums[mm.group(1)] = int(mm.group(2))
    wanted = ["fcgi_header_len", "fcgi_version_1", "fcgi_begin_request", "fcgi_abort_request", "fcgi_end_request", "fcgi_params",
              "fcgi_stdin", "fcgi_stdout", "fcgi_stderr", "fcgi_data", "fcgi_get_values", "fcgi_get_values_result",
              "fcgi_unknown_type", "fcgi_keep_conn", "fcgi_responder", "fcgi_request_complete", "fcgi_unknown_role"]
    for k in wanted:
        if k not in enums:
            raise Untranslatable("fastcgi enum " + k)
        w(f"def {k} : Nat := {enums[k]}")
    SZ = {"unsigned char": 1, "uint16_t": 2, "uint32_t": 4}

    def layout(struct):
        sb = function_body(fcgi, r"struct\s+" + struct + r"\s*\{")
        off, fields = 0, []
        for fm in re.finditer(r"(unsigned char|uint16_t|uint32_t)\s+(\w+)\s*(?:\[\s*(\d+)\s*\])?\s*;", sb):
            size = SZ[fm.group(1)] * (int(fm.group(3)) if fm.group(3) else 1)
            if off % SZ[fm.group(1)]:
                raise Untranslatable(struct + ": padding inside struct")
            fields.append((fm.group(2), off, size)); off += size
        return fields, off
    hf, hsz = layout("fcgi_header")
    names = [f[0] for f in hf]
    if names != ["version", "type", "request_id", "content_length", "padding_length", "reserved"]:
        raise Untranslatable("fcgi_header fields " + str(names))
    for nme, off, size in hf:
        w(f"def hdrOff_{nme} : Nat := {off}")
    w(f"def hdrSize : Nat := {hsz}")
    if enums["fcgi_header_len"] != hsz:
        raise Untranslatable("fcgi_header_len != sizeof(fcgi_header)")
    hb = function_body(fcgi, r"struct\s+fcgi_header\s*\{")
    need(re.search(r"void\s+to_host\(\)\s*\{\s*request_id\s*=\s*ntohs\(request_id\);\s*content_length\s*=\s*ntohs\(content_length\);\s*\}", hb), "fcgi_header::to_host")
    bf, bsz = layout("fcgi_request_body")
    if [f[0] for f in bf] != ["role", "flags", "reserved"]:
        raise Untranslatable("fcgi_request_body fields")
    w(f"def beginBodySize : Nat := {bsz}")
    w(f"def beginOff_role : Nat := {bf[0][1]}\ndef beginOff_flags : Nat := {bf[1][1]}")
    ef, esz = layout("fcgi_end_request_body")
    if [f[0] for f in ef] != ["app_status", "protocol_status", "reserved"]:
        raise Untranslatable("fcgi_end_request_body fields")
    w(f"def endBodySize : Nat := {esz}\ndef endOff_protocol_status : Nat := {ef[1][1]}")

    b = function_body(fcgi, r"void\s+on_start_request\s*\(")
    m = need(re.search(r"if\s*\(\s*header_\.version\s*!=\s*fcgi_version_1\s*\)\s*\{\s*h\(", b), "on_start_request version check")
    need(re.search(r"if\s*\(\s*body_\.size\(\)\s*!=\s*sizeof\(fcgi_request_body\)\s*\)", b), "on_start_request body size check")
    need(re.search(r"keep_alive_\s*=\s*body->flags\s*&\s*fcgi_keep_conn\s*;", b), "keep_conn")
    m = need(re.search(r"if\s*\(\s*body->role\s*!=\s*fcgi_responder\s*\)\s*\{\s*header_\.type\s*=\s*fcgi_end_request\s*;\s*body_\.assign\(\s*(\d+)\s*,\s*(\d+)\s*\)\s*;\s*"
                       r"fcgi_end_request_body\s*\*\s*body\s*=\s*reinterpret_cast<fcgi_end_request_body\*>\(&body_\.front\(\)\)\s*;\s*"
                       r"body->protocol_status\s*=\s*fcgi_unknown_role\s*;", b), "unknown role branch")
    w(f"/-- `body_.assign({m.group(1)},{m.group(2)})` = (count, value) before the END_REQUEST body is written through `&body_.front()` -/")
    w(f"def unknownRoleAssign : Nat × Nat := ({m.group(1)}, {m.group(2)})")
    # GET_VALUES answer names
    gv = re.findall(r'name\s*==\s*"(FCGI_\w+)"', b)
    if gv != ["FCGI_MAX_CONNS", "FCGI_MAX_REQS", "FCGI_MPXS_CONNS"]:
        raise Untranslatable("GET_VALUES names " + str(gv))
    need(re.search(r'if\(name=="FCGI_MAX_CONNS"\s*\|\|\s*name=="FCGI_MAX_REQS"\)\s*add_pair\(name,ss\.str\(\)\);\s*else\s+if\(name=="FCGI_MPXS_CONNS"\)\s*add_pair\(name,"0"\);', re.sub(r"[ \t\n]+", " ", b).replace("( ", "(")), "GET_VALUES answers")
    for i, nme in enumerate(gv):
        w(f"def gvName{i} : List Nat := {lean_str_bytes(nme)}")

    b = function_body(fcgi, r"uint32_t\s+read_len\s*\(")
    m = need(re.fullmatch(r"\s*if\s*\(\s*p\s*<\s*e\s*&&\s*\*p\s*<\s*(\w+)\s*\)\s*\{\s*return\s+\*p\+\+\s*;\s*\}\s*else\s+if\s*\(\s*e\s*-\s*p\s*>=\s*(\d+)\s*\)\s*\{"
                          r"\s*uint32_t\s+B3\s*=\s*\*p\+\+\s*;\s*uint32_t\s+B2\s*=\s*\*p\+\+\s*;\s*uint32_t\s+B1\s*=\s*\*p\+\+\s*;\s*uint32_t\s+B0\s*=\s*\*p\+\+\s*;"
                          r"\s*uint32_t\s+len\s*=\s*([^;]+);\s*return\s+len\s*;\s*\}\s*else\s*\{\s*return\s+(\w+)\s*;\s*\}\s*", b), "read_len shape")
    w(f"def readLenShortBelow : Nat := {int(m.group(1), 0)}")
    w(f"def readLenLongNeed : Nat := {m.group(2)}")
    w(f"/-- `uint32_t len = {m.group(3).strip()}` -/\ndef readLenLong (B3 B2 B1 B0 : Nat) : Nat := ({c_to_lean(m.group(3))}) % 4294967296")
    w(f"def readLenFail : Nat := {int(m.group(4).rstrip('uU'), 0)}")
    b = function_body(fcgi, r"bool\s+parse_pairs\s*\(\s*\)")
    m = need(re.search(r"uint32_t\s+nlen\s*=\s*read_len\(p,e\)\s*;\s*uint32_t\s+vlen\s*=\s*read_len\(p,e\)\s*;\s*if\s*\(\s*nlen\s*==\s*(\w+)\s*\|\|\s*vlen\s*==\s*(\w+)\s*\)\s*return\s+false\s*;", b), "parse_pairs failure test")
    if int(m.group(1).rstrip("uU"), 0) != int(m.group(2).rstrip("uU"), 0):
        raise Untranslatable("parse_pairs sentinel")
    w(f"def pairsFailSentinel : Nat := {int(m.group(1).rstrip('uU'), 0)}")
    fits = re.findall(r"if\s*\(\s*(uint32_t\(e\s*-\s*p\)\s*>=\s*(?:nlen|vlen))\s*\)", b)
    if len(fits) != 2:
        raise Untranslatable("parse_pairs bound checks")
    w(f"/-- `if({fits[0]})` with `avail = e - p` -/\ndef pairFitsName (avail nlen : Nat) : Bool := decide ((avail % 4294967296) ≥ nlen)")
    w(f"def pairFitsValue (avail vlen : Nat) : Bool := decide ((avail % 4294967296) ≥ vlen)")
    for f_, nm in zip(fits, ("nlen", "vlen")):
        if re.sub(r"\s+", "", f_) != f"uint32_t(e-p)>={nm}":
            raise Untranslatable("parse_pairs bound check text " + f_)
    emp = re.search(r"if\s*\(\s*body_\.empty\(\)\s*\)\s*return\s+true\s*;", b) is not None
    w(f"def pairsEmptyGuard : Bool := {'true' if emp else 'false'}")

    b = function_body(fcgi, r"void\s+params_record_expected\s*\(")
    m = need(re.search(r"if\s*\(\s*header_\.type\s*!=\s*fcgi_params\s*\|\|\s*header_\.request_id\s*!=\s*request_id_\s*\)", b), "params type check")
    m = need(re.search(r"if\s*\(\s*header_\.content_length\s*!=\s*0\s*\)\s*\{\s*if\s*\(\s*body_\.size\(\)\s*<\s*(\d+)\s*\)", b), "params limit")
    w(f"def paramsLimit : Nat := {m.group(1)}")
    need(re.search(r"if\s*\(\s*!s_length\s*\|\|\s*\*s_length\s*==\s*0\s*\|\|\s*\(content_length_\s*=\s*atoll\(s_length\)\)\s*<=\s*0\s*\)\s*content_length_\s*=\s*0\s*;", b), "fcgi content length")
    b = function_body(fcgi, r"void\s+stdin_eof_expected\s*\(")
    need(re.search(r"if\s*\(\s*header_\.type\s*!=\s*fcgi_stdin\s*\|\|\s*header_\.content_length\s*!=\s*0\s*\)", b), "stdin_eof_expected check")
    b = function_body(fcgi, r"void\s+on_some_input_recieved\s*\(")
    need(re.search(r"header_\.type\s*!=\s*fcgi_stdin\s*\|\|\s*header_\.request_id\s*!=\s*request_id_\s*\|\|\s*header_\.content_length\s*==\s*0", b), "on_some_input_recieved check")
    b = function_body(fcgi, r"void\s+on_read_stdin_eof_expected\s*\(")
    need(re.search(r"header_\.type\s*!=\s*fcgi_stdin\s*\|\|\s*header_\.request_id\s*!=\s*request_id_\s*\|\|\s*header_\.content_length\s*!=\s*0", b), "on_read_stdin_eof_expected check")
    b = function_body(fcgi, r"void\s+async_read_from_socket\s*\(")
    m = need(re.search(r"size_t\s+min_size\s*=\s*std::max\(\s*n\s*,\s*size_t\((\d+)\)\s*\)\s*;\s*if\s*\(\s*cache_\.size\(\)\s*<\s*n\s*\)\s*\{\s*cache_\.resize\(min_size,0\)\s*;", b), "cache sizing")
    w(f"def cacheMin : Nat := {m.group(1)}")
    # every request starts from a clean per-request state: fastcgi::reset_all() and connection::reset_all() (the cached
    # getenv() map) at the start of the header phase
    b = function_body(fcgi, r"virtual\s+void\s+async_read_headers\s*\(\s*handler\s+const\s*&\s*h\s*\)")
    need(re.search(r"^\s*reset_all\(\)\s*;\s*connection::reset_all\(\)\s*;\s*async_read_record\(", b), "fastcgi::async_read_headers: reset_all(); connection::reset_all(); async_read_record(...)")
    need(re.search(r"virtual\s+void\s+reset_all\s*\(\s*\)\s*\{\s*map_env_\.clear\(\)\s*;\s*\}", rd(repo, "private/cgi_api.h")), "connection::reset_all clears map_env_")
    need(re.search(r"connection::reset_all\(\)\s*;", function_body(http, r"void\s+reset_all\s*\(\s*\)\s*\{")), "http::reset_all calls connection::reset_all")
    # widths of the size variables of the record reader: the arithmetic is done in the declared type
    WIDTH = {"size_t": 64, "std::size_t": 64, "unsigned long": 64, "unsigned long long": 64, "uint64_t": 64,
             "unsigned": 32, "unsigned int": 32, "uint32_t": 32, "uint16_t": 16, "unsigned short": 16, "uint8_t": 8, "unsigned char": 8}

    def rec_size_decl(body, what):
        m = need(re.search(r"([A-Za-z_][\w:]*(?:\s+[a-z]+)*)\s+rec_size\s*=\s*header_\.content_length\s*\+\s*header_\.padding_length\s*;", body), what + ": rec_size")
        ty = re.sub(r"\s+", " ", m.group(1)).strip()
        if ty not in WIDTH:
            raise Untranslatable(f"{what}: rec_size declared as `{ty}` (signed or unknown width)")
        m2 = need(re.search(r"([A-Za-z_][\w:]*(?:\s+[a-z]+)*)\s+cur_size\s*=\s*body_\.size\(\)\s*;", body), what + ": cur_size")
        ty2 = re.sub(r"\s+", " ", m2.group(1)).strip()
        if WIDTH.get(ty2) != 64:
            raise Untranslatable(f"{what}: cur_size declared as `{ty2}`")
        return ty, WIDTH[ty]
    b = function_body(fcgi, r"void\s+on_header_read\s*\(")
    ty, bits = rec_size_decl(b, "fastcgi::on_header_read")
    need(re.search(r"body_\.resize\(cur_size\s*\+\s*rec_size\)\s*;", b), "on_header_read: body_.resize")
    need(re.search(r"async_read_from_socket\(\s*&body_\[cur_size\]\s*,\s*rec_size\s*,", b), "on_header_read: read rec_size bytes")
    w(f"/-- `{ty} rec_size = header_.content_length + header_.padding_length` in `on_header_read` (asynchronous path) -/")
    w(f"def fcgiRecSizeAsync (content_length padding_length : Nat) : Nat := (content_length + padding_length) % {2 ** bits}")
    b = function_body(fcgi, r"bool\s+non_blocking_read_record\s*\(")
    ty, bits = rec_size_decl(b, "fastcgi::non_blocking_read_record")
    need(re.search(r"if\s*\(\s*buffer_size\s*<\s*sizeof\(hdr\)\s*\+\s*hdr\.content_length\s*\+\s*hdr\.padding_length\s*\)\s*return\s+false\s*;", b), "non_blocking_read_record: completeness test")
    need(re.search(r"size_t\s+buffer_size\s*=\s*get_buffer_size\(\)\s*;", b), "non_blocking_read_record: buffer_size")
    need(re.search(r"body_\.resize\(cur_size\s*\+\s*rec_size\)\s*;\s*read_bytes\(&body_\[cur_size\],rec_size\)\s*;\s*body_\.resize\(cur_size\s*\+\s*header_\.content_length\)\s*;", b), "non_blocking_read_record: body handling")
    w(f"/-- the same declaration in `non_blocking_read_record` (record completely cached) -/")
    w(f"def fcgiRecSizeCached (content_length padding_length : Nat) : Nat := (content_length + padding_length) % {2 ** bits}")
    b = function_body(fcgi, r"void\s+on_body_read\s*\(")
    need(re.search(r"body_\.resize\(body_\.size\(\)\s*-\s*header_\.padding_length\)\s*;", b), "on_body_read: padding trim")
    b = function_body(fcgi, r"void\s+async_send_respnse\s*\(")
    pr = re.search(r"header_\.content_length\s*=\s*body_\.size\(\)\s*;\s*header_\.padding_length\s*=\s*0\s*;", b) is not None
    w(f"/-- short replies reset `header_.padding_length` before computing their own padding -/\ndef replyPaddingReset : Bool := {'true' if pr else 'false'}")
    eb = re.search(r"if\s*\(\s*!body_\.empty\(\)\s*\)\s*packet\s*\+=\s*io::buffer\(body_\)\s*;", b) is not None
    w(f"def replyEmptyBodyGuard : Bool := {'true' if eb else 'false'}")
    w("")

    # ============================================================ HTTP
    w("/-! ## HTTP (private/http_protocol.h, private/http_parser.h, src/http_api.cpp) -/")
    b = function_body(proto, r"inline\s+bool\s+separator\s*\(\s*char\s+c\s*\)\s*\{")
    m = need(re.fullmatch(r"\s*switch\s*\(\s*c\s*\)\s*\{((?:\s*case\s+'(?:\\.|[^'\\])'\s*:)+)\s*return\s+true\s*;\s*default\s*:\s*return\s+false\s*;\s*\}\s*", b), "separator() shape")
    seps = [char_val(x) for x in re.findall(r"case\s+('(?:\\.|[^'\\])')\s*:", m.group(1))]
    w(f"def separators : List Nat := {lean_bytes(seps)}")
    b = function_body(proto, r"It\s+tocken\s*\(\s*It\s+begin\s*,\s*It\s+end\s*\)\s*\{")
    m = need(re.search(r"while\s*\(\s*begin\s*<\s*end\s*&&\s*(\w+)\s*<=\s*\(c=\*begin\)\s*&&\s*c\s*<=\s*(\w+)\s*&&\s*!separator\(c\)\s*\)\s*begin\+\+\s*;", b), "tocken shape")
    w(f"def tockenLo : Nat := {int(m.group(1), 0)}\ndef tockenHi : Nat := {int(m.group(2), 0)}")
    b = function_body(proto, r"It\s+skip_ws\s*\(\s*It\s+p\s*,\s*It\s+end\s*\)\s*\{")
    need(re.search(r"case\s+'\\r'\s*:[^:]*?if\s*\(\s*p\+2\s*<\s*end\s*&&\s*\*\(p\+1\)\s*==\s*'\\n'\s*&&\s*\(\s*\*\(p\+2\)\s*==\s*' '\s*\|\|\s*\*\(p\+2\)\s*==\s*'\\t'\s*\)\s*\)\s*\{\s*p\s*\+=\s*2\s*;\s*break\s*;\s*\}\s*return\s+p\s*;\s*case\s+' '\s*:\s*case\s+'\\t'\s*:\s*break\s*;\s*default\s*:\s*return\s+p\s*;", b), "skip_ws shape")
    m = need(re.search(r"bool\s+inline\s+xdigit\s*\(\s*int\s+c\s*\)\s*\{\s*return\s+([^;]+);\s*\}", proto), "xdigit")
    w(f"def xdigit (c : Nat) : Bool := {c_to_lean(m.group(1))}")

    # parser
    pb = function_body(pars, r"class\s+parser\s*\{")
    em = need(re.search(r"enum\s*\{([^}]*)\}\s*state_\s*;", pb), "parser state enum")
    states = {s.strip(): i for i, s in enumerate(x for x in em.group(1).split(",") if x.strip())}
    rm = need(re.search(r"enum\s*\{\s*([^}]*)\}\s*;\s*int\s+step\s*\(\s*\)", pb), "parser result enum")
    rets = {s.strip(): i for i, s in enumerate(x for x in rm.group(1).split(",") if x.strip())}
    for s, i in states.items():
        w(f"def ps_{s} : Nat := {i}")
    for s, i in rets.items():
        w(f"def pr_{s} : Nat := {i}")
    sb = function_body(pb, r"int\s+step\s*\(\s*\)\s*\{")
    sb = re.sub(r"#if(?:def)?\b.*?#endif", "", sb, flags=re.S)
    m = need(re.fullmatch(r"\s*for\s*\(\s*;\s*;\s*\)\s*\{\s*int\s+c\s*=\s*getc\(\)\s*;\s*if\s*\(\s*c\s*<\s*0\s*\)\s*return\s+more_data\s*;\s*switch\s*\(\s*state_\s*\)\s*\{(.*)\}\s*header_\s*\+=\s*char\(c\)\s*;\s*\}\s*", sb, re.S), "parser::step outer shape")
    tr = StepTranslator(states, rets)
    arms = tr.outer(split_statements(m.group(1)))
    w("/-- parser registers: `state_`, `bracket_counter_`, `header_` (kept REVERSED: `header_ += c` is a cons,\n`header_.resize(size-k)` a `drop k`), whether `ungetc(c)` was called in this iteration, and whether an unsigned\ncounter / size would have wrapped below zero (`under`) -/")
    w("structure PState where\n  state : Nat := 0\n  bc : Nat := 0\n  rhdr : List Nat := []\n  unget : Bool := false\n  under : Bool := false\nderiving Repr, DecidableEq")
    w("/-- result of one iteration of the `for(;;)` in `parser::step()` on byte `c ≥ 0`:\n"
      "`cont s` = fell out of `switch(state_)`: `header_ += char(c)` and loop; `ret code s` = `return code` -/")
    w("inductive PStep where\n  | cont (s : PState)\n  | ret (code : Nat) (s : PState)\nderiving Repr, DecidableEq")
    for s in states:
        w(f"def stepArm_{s} (s : PState) (c : Nat) : PStep := {arms[s]}")
    chain = "PStep.ret pr_error_observerd s"
    for s in reversed(list(states)):
        chain = f"if s.state == ps_{s} then stepArm_{s} s c else {chain}"
    w(f"def stepSwitch (s : PState) (c : Nat) : PStep := {chain}")
    gb = function_body(pb, r"inline\s+int\s+getc\s*\(\s*\)\s*\{")
    need(re.search(r"if\s*\(\s*\*body_ptr_\s*<\s*body_->size\(\)\s*\)\s*\{\s*return\s+\(unsigned\s+char\)\(\*body_\)\[\(\*body_ptr_\)\+\+\]\s*;\s*\}\s*else\s*\{\s*body_->clear\(\)\s*;\s*\*body_ptr_\s*=\s*0\s*;\s*return\s+-1\s*;\s*\}", gb), "parser::getc shape")
    ub = function_body(pb, r"inline\s+void\s+ungetc\s*\(\s*int\s+c\s*\)\s*\{")
    need(re.search(r"if\s*\(\s*body_\s*\)\s*\{\s*if\s*\(\s*\*body_ptr_\s*>\s*0\s*\)\s*\(\*body_ptr_\)--\s*;\s*else\s+ungot_\.push\(c\)\s*;\s*\}", ub), "parser::ungetc shape")

    hb = function_body(http, r"virtual\s+void\s+some_headers_data_read\s*\(")
    m = need(re.search(r"if\s*\(\s*n\s*>\s*(\d+)\s*\)\s*n\s*=\s*(\d+)\s*;", hb), "http read cap")
    if m.group(1) != m.group(2):
        raise Untranslatable("http read cap mismatch")
    w(f"def httpReadCap : Nat := {m.group(1)}")
    m = need(re.search(r"case\s+parser::more_data\s*:\s*if\s*\(\s*total_read_\s*>\s*(\d+)\s*\)\s*\{\s*h\(", hb), "http header cap")
    w(f"def httpHeaderCap : Nat := {m.group(1)}")
    m = need(re.search(r"rmethod\s*=\s*std::find\(\s*header_begin\s*,\s*header_end\s*,\s*('(?:\\.|[^'\\])')\s*\)\s*;\s*if\s*\(\s*rmethod\s*!=\s*header_end\s*\)\s*query\s*=\s*std::find\(\s*rmethod\+1\s*,\s*header_end\s*,\s*('(?:\\.|[^'\\])')\s*\)\s*;", hb), "request line split")
    w(f"def reqLineSep1 : Nat := {char_val(m.group(1))}\ndef reqLineSep2 : Nat := {char_val(m.group(2))}")
    m = need(re.search(r'is_http_11_\s*=\s*strcmp\(http_protocol,"([^"]*)"\)\s*==\s*0\s*;', hb), "http/1.1 test")
    w(f"def http11 : List Nat := {lean_str_bytes(m.group(1))}")
    sp = re.findall(r'strcmp\(name,"(\w+)"\)\s*==\s*0', hb)
    if sp != ["CONTENT_LENGTH", "CONTENT_TYPE"]:
        raise Untranslatable("special header names " + str(sp))
    w(f"def hdrContentLength : List Nat := {lean_str_bytes(sp[0])}\ndef hdrContentType : List Nat := {lean_str_bytes(sp[1])}")
    m = need(re.search(r'strcpy\(updated_name,"(\w+)"\)\s*;\s*strcat\(updated_name,name\)\s*;', hb), "HTTP_ prefix")
    w(f"def hdrPrefix : List Nat := {lean_str_bytes(m.group(1))}")
    need(re.search(r"if\s*\(\s*\*value\s*!=\s*0\s*\)\s*env_content_length_\s*=\s*atoll\(value\)\s*;\s*else\s+env_content_length_\s*=\s*0\s*;", hb), "http content length")
    sh = function_body(http, r"virtual\s+bool\s+parse_single_header\s*\(")
    m = need(re.search(r"if\s*\(\s*name\[i\]\s*==\s*('(?:\\.|[^'\\])')\s*\)\s*name\[i\]\s*=\s*('(?:\\.|[^'\\])')\s*;\s*else\s+if\s*\(\s*('(?:\\.|[^'\\])')\s*<=\s*name\[i\]\s*&&\s*name\[i\]\s*<=\s*('(?:\\.|[^'\\])')\s*\)\s*name\[i\]\s*=\s*name\[i\]\s*-\s*('(?:\\.|[^'\\])')\s*\+\s*('(?:\\.|[^'\\])')\s*;", sh), "header name canonicalisation")
    g = [char_val(x) for x in m.groups()]
    w(f"/-- `parse_single_header`: `{m.group(1)}` → `{m.group(2)}`, `{m.group(3)}`..`{m.group(4)}` → `c - {m.group(5)} + {m.group(6)}` -/")
    w(f"def canonChar (c : Nat) : Nat := if c == {g[0]} then {g[1]} else if {g[2]} ≤ c ∧ c ≤ {g[3]} then c - {g[4]} + {g[5]} else c")
    need(re.search(r"p=cppcms::http::protocol::skip_ws\(p,e\);\s*name_end=cppcms::http::protocol::tocken\(p,e\);\s*if\(name_end==p\)\s*return false;", sh), "parse_single_header name")
    need(re.search(r"p=cppcms::http::protocol::skip_ws\(p,e\);\s*if\(p==e \|\| \*p!=':'\)\s*return false;\s*\+\+p;\s*p=cppcms::http::protocol::skip_ws\(p,e\);", sh), "parse_single_header colon")
    ra = function_body(http, r"void\s+reset_all\s*\(\s*\)\s*\{")
    envn = re.findall(r'env_\.add\("(\w+)"', ra)
    if envn != ["SERVER_SOFTWARE", "SERVER_NAME", "SERVER_PORT", "GATEWAY_INTERFACE"]:
        raise Untranslatable("http reset_all env " + str(envn))
    m = need(re.search(r'env_\.add\("GATEWAY_INTERFACE","([^"]*)"\)', ra), "gateway interface")
    w(f"def envGateway : List Nat := {lean_str_bytes(m.group(1))}")
    for nme in envn + ["SERVER_PROTOCOL", "REQUEST_METHOD", "REMOTE_HOST", "REMOTE_ADDR", "QUERY_STRING", "SCRIPT_NAME", "PATH_INFO"]:
        w(f"def env_{nme} : List Nat := {lean_str_bytes(nme)}")
    pb2 = function_body(http, r"virtual\s+void\s+process_request\s*\(")
    order = re.findall(r'env_\.add\("(\w+)"', pb2)
    if order != ["REQUEST_METHOD", "REMOTE_HOST", "REMOTE_ADDR", "QUERY_STRING", "SCRIPT_NAME", "PATH_INFO"]:
        raise Untranslatable("process_request env order " + str(order))
    need(re.search(r"if\s*\(\s*rm==rm_end\s*\|\|\s*cppcms::http::protocol::tocken\(rm,rm_end\)!=rm_end\s*\)\s*\{\s*error_response\(", pb2), "method token check")
    m = need(re.search(r"if\s*\(\s*request_uri_\[0\]\s*!=\s*('(?:\\.|[^'\\])')\s*\)\s*\{\s*error_response\(", pb2), "uri root check")
    w(f"def uriRoot : Nat := {char_val(m.group(1))}")
    m = need(re.search(r"char\s*\*\s*query\s*=\s*strchr\(request_uri_,('(?:\\.|[^'\\])')\)\s*;", pb2), "query split")
    w(f"def querySep : Nat := {char_val(m.group(1))}")
    m = need(re.search(r"if\s*\(\s*path_size\s*>=\s*name_size\s*&&\s*memcmp\(path,name\.c_str\(\),name_size\)\s*==\s*0\s*&&\s*\(\s*path_size\s*==\s*name_size\s*\|\|\s*path\[name_size\]\s*==\s*('(?:\\.|[^'\\])')\s*\)\s*\)", pb2), "script name match")
    w(f"def scriptBoundary : Nat := {char_val(m.group(1))}")
    er = re.findall(r'error_response\("((?:\\.|[^"\\])*)"', pb2)
    if len(er) != 2 or er[0] != er[1]:
        raise Untranslatable("error_response texts")
    w(f"def rawBadRequest : List Nat := {lean_str_bytes(er[0])}")
    # urldecode constants
    ud = function_body(util, r"std::string\s+urldecode\s*\(\s*char\s+const\s*\*\s*begin\s*,\s*char\s+const\s*\*\s*end\s*\)\s*\{")
    m = need(re.search(r"case\s+('(?:\\.|[^'\\])')\s*:\s*result\s*\+=\s*('(?:\\.|[^'\\])')\s*;\s*break\s*;\s*case\s+('(?:\\.|[^'\\])')\s*:\s*"
                       r"if\s*\(\s*end\s*-\s*begin\s*>=\s*(\d+)\s*&&\s*http::protocol::xdigit\(begin\[1\]\)\s*&&\s*http::protocol::xdigit\(begin\[2\]\)\s*\)", ud), "urldecode shape")
    w(f"def urldecPlus : Nat := {char_val(m.group(1))}\ndef urldecSpace : Nat := {char_val(m.group(2))}\ndef urldecPct : Nat := {char_val(m.group(3))}\ndef urldecNeed : Nat := {m.group(4)}")
    w("")

    # total_read_ (the 16 KiB header budget) is per request: reset when a request's header phase starts
    arh = function_body(http, r"virtual\s+void\s+async_read_headers\s*\(\s*handler\s+const\s*&\s*h\s*\)")
    ra_http = function_body(http, r"void\s+reset_all\s*\(\s*\)\s*\{")
    ka = function_body(http, r"virtual\s+bool\s+keep_alive\s*\(\s*\)")
    reset_in_arh = re.search(r"\btotal_read_\s*=\s*0\s*;", arh) is not None
    reset_in_ra = (re.search(r"\btotal_read_\s*=\s*0\s*;", ra_http) is not None and
                   re.search(r"if\s*\(\s*ka_value\s*\)\s*\{\s*reset_all\(\)\s*;", ka) is not None)
    assigns = re.findall(r"\btotal_read_\s*(\+=|-=|=)\s*([^;]*);", http)
    if sorted(set((op, re.sub(r"\s+", "", rhs)) for op, rhs in assigns)) != sorted([("=", "0"), ("+=", "n"), ("+=", "input_body_.size()-input_body_ptr_")]):
        raise Untranslatable("http: assignments to total_read_: " + str(assigns))
    need(re.search(r"case\s+parser::more_data\s*:\s*if\s*\(\s*total_read_\s*>\s*(\d+)\s*\)", http), "http: total_read_ test")
    w("/-- `total_read_ = 0` is executed when the header phase of every request starts (`async_read_headers`, or `reset_all()`\nfrom `keep_alive()`); `false`: the counter accumulates over a kept-alive connection -/")
    w(f"def httpTotalReadResetPerRequest : Bool := {'true' if (reset_in_arh or reset_in_ra) else 'false'}")
    w("")

    # ============================================================ request layer
    w("/-! ## request layer (src/http_request.cpp, src/cgi_api.cpp) -/")
    b = function_body(req, r"int\s+request::on_content_start\s*\(\s*\)\s*\{")
    pre = need(re.search(r"^(.*?)if\s*\(\s*lazy_content_type\(\)\.is_multipart_form_data\(\)\s*\)\s*\{\s*if\s*\(\s*d->content_length\s*>\s*d->limits\.multipart_form_data_limit\(\)\s*\)\s*return\s+(\d+)\s*;\s*\}\s*"
                         r"else\s*\{\s*if\s*\(\s*d->content_length\s*>\s*static_cast<long long>\(d->limits\.content_length_limit\(\)\)\s*\)\s*return\s+(\d+)\s*;\s*\}\s*"
                         r"if\s*\(\s*!d->filter_is_raw_content_filter\s*&&\s*!lazy_content_type\(\)\.is_multipart_form_data\(\)\s*\)\s*\{\s*d->post_data\.resize\(d->content_length\)\s*;\s*d->read_full\s*=\s*true\s*;", b, re.S), "on_content_start shape")
    guards = re.findall(r"if\s*\(\s*(d->content_length[^)]*)\)\s*return\s+(\d+)\s*;", pre.group(1))
    if re.sub(r"if\s*\(\s*d->content_length[^)]*\)\s*return\s+\d+\s*;", "", pre.group(1)).strip():
        raise Untranslatable("on_content_start: unknown statements before the limit checks")
    chain = "none"
    for cnd, code in reversed(guards):
        chain = f"if {c_to_lean(cnd.replace('d->content_length', 'cl'))} then some {code} else {chain}"
    w("/-- the early returns of `request::on_content_start` before the limit checks, `cl` is `long long` -/")
    w(f"def contentStartEarly (cl : Int) : Option Nat := {chain}")
    w(f"def tooLargeMultipart : Nat := {pre.group(2)}\ndef tooLarge : Nat := {pre.group(3)}")
    b = function_body(req, r"int\s+request::on_content_progress\s*\(\s*size_t\s+n\s*\)\s*\{")
    m1 = re.search(r"if\s*\(\s*lazy_content_type\(\)\.is_form_urlencoded\(\)\s*\)\s*\{\s*char\s+const\s*\*\s*data\s*=\s*&d->post_data\[0\]\s*;\s*char\s+const\s*\*\s*data_end\s*=\s*data\s*\+\s*d->post_data\.size\(\)\s*;\s*"
                   r"(parse_form_urlencoded\(data,data_end,post_\)\s*;|if\s*\(\s*!parse_form_urlencoded\(data,data_end,post_\)\s*\)\s*\{\s*post_\.clear\(\)\s*;\s*return\s+(\d+)\s*;\s*\})\s*\}", b)
    need(m1, "on_content_progress: urlencoded POST handling")
    w("/-- `request::on_content_progress`: status returned when the urlencoded POST body does not parse (`none`: the\nresult of `parse_form_urlencoded` is ignored and the fields parsed so far are delivered) -/")
    w(f"def postParseFailure : Option Nat := {('some ' + m1.group(2)) if m1.group(2) else 'none'}")
    need(re.search(r"d->read_size\s*\+=\s*n\s*;", b), "on_content_progress read_size")
    need(re.search(r"if\s*\(\s*d->read_size\s*==\s*d->content_length\s*\)\s*\{\s*if\s*\(\s*d->read_full\s*\)", b), "on_content_progress completion test")
    need(re.search(r"d->content_length\s*=\s*conn_->env_content_length\(\)\s*;\s*if\s*\(\s*d->content_length\s*==\s*0\s*\)\s*d->ready\s*=\s*true\s*;", function_body(req, r"bool\s+request::prepare\s*\(\s*\)\s*\{")), "request::prepare")
    w("")

    # ============================================================ calls that can fail with a system error
    w("/-! ## calls that can fail with a system error (booster::aio socket operations) in the protocol classes and the acceptor -/")
    w("/-- (file, enclosing function, operation, the overload taking `booster::system::error_code &` is used, the statement that\nfollows tests that error code, the enclosing function is a constructor/destructor) -/")
    acc = rd(repo, "private/cgi_acceptor.h")
    sites = (sys_call_sites("src/http_api.cpp", http, {"http"}) + sys_call_sites("src/scgi_api.cpp", scgi, {"scgi"}) +
             sys_call_sites("src/fastcgi_api.cpp", fcgi, {"fastcgi"}) + sys_call_sites("private/cgi_acceptor.h", acc, {"socket_acceptor"}))
    if not any(m == "remote_endpoint" for _, _, m, _, _, _ in sites):
        raise Untranslatable("http: no remote_endpoint call found (REMOTE_ADDR lookup)")
    w("def sysCallSites : List (String × String × String × Bool × Bool × Bool) := [")
    w(",\n".join(f'  ("{f}", "{fn}", "{m}", {str(nt).lower()}, {str(ck).lower()}, {str(ct).lower()})' for f, fn, m, nt, ck, ct in sites))
    w("]")
    w("")

    # ============================================================ cgi_forwarder (forwarding.rules): buffer sizing
    w("/-! ## cgi_forwarder (src/cgi_api.cpp): the buffer a forwarded request body is relayed through -/")
    m = need(re.search(r"void\s+on_header_sent\s*\([^)]*\)\s*\{", cgi), "cgi_forwarder::on_header_sent")
    ohs = function_body(cgi, r"void\s+on_header_sent\s*\(")
    need(re.search(r"content_length_\s*=\s*conn_->env_content_length\(\)\s*;", ohs), "on_header_sent: content_length_")
    m = need(re.search(r"if\s*\(\s*content_length_\s*>\s*0\s*\)\s*\{\s*post_\.resize\(\s*(.*?)\s*,\s*0\s*\)\s*;\s*write_post\(\)\s*;", ohs, re.S), "on_header_sent: post_.resize")
    expr = re.sub(r"std::(max|min)\s*<[^>]*>\s*\(", lambda mm: ("MAXF(" if mm.group(1) == "max" else "MINF("), m.group(1))
    expr = re.sub(r"std::(max|min)\s*\(", lambda mm: ("MAXF(" if mm.group(1) == "max" else "MINF("), expr)
    w("/-- `post_.resize(…,0)` in `on_header_sent` for `content_length_ > 0` (`long long`) -/")
    w(f"def fwdPostBuffer (content_length_ : Int) : Int := {c_to_lean(expr, funcs={'MAXF': 'max', 'MINF': 'min'})}")
    wp = function_body(cgi, r"void\s+write_post\s*\(\s*\)")
    need(re.search(r"if\s*\(\s*content_length_\s*>\s*0\s*\)\s*\{\s*if\s*\(\s*content_length_\s*<\s*\(long long\)\(post_\.size\(\)\)\s*\)\s*\{\s*post_\.resize\(content_length_\)\s*;\s*\}\s*conn_->async_read_some\(&post_\.front\(\),post_\.size\(\),", wp), "write_post shape")
    m = need(re.search(r"response_\.resize\((\d+)\)\s*;\s*read_response\(\)\s*;", ohs), "on_header_sent: response_.resize")
    w(f"def fwdResponseBuffer : Nat := {m.group(1)}")
    w("")

    # ============================================================ callbacks of the protocol independent layer
    w("/-! ## callbacks of the protocol independent layer (src/cgi_api.cpp, src/http_context.cpp, src/http_request.cpp) -/")
    ct = CgiTranslator()
    for nme, src, sig, doc in [
        ("cgi_on_headers_read", cgi, r"void\s+connection::on_headers_read\s*\(", "connection::on_headers_read(e,context,h)"),
        ("cgi_set_error", cgi, r"void\s+connection::set_error\s*\(", "connection::set_error(h,s)"),
        ("cgi_handle_http_error", cgi, r"void\s+connection::handle_http_error\s*\(", "connection::handle_http_error(code,context,h)"),
        ("cgi_handle_http_error_eof", cgi, r"void\s+connection::handle_http_error_eof\s*\(", "connection::handle_http_error_eof(e,code,h)"),
        ("cgi_load_content", cgi, r"void\s+connection::load_content\s*\(", "connection::load_content(context,h)"),
        ("cgi_on_some_content_read", cgi, r"void\s+connection::on_some_content_read\s*\(", "connection::on_some_content_read(e,n,context,h)"),
        ("ctx_on_request_ready", ctx, r"void\s+context::on_request_ready\s*\(\s*bool\s+error\s*\)", "context::on_request_ready(error)"),
        ("req_on_error", req, r"void\s+request::on_error\s*\(\s*\)", "request::on_error()"),
    ]:
        w(f"/-- `{doc}` -/")
        w(f"def {nme} : CStmt := {ct.function(src, sig, doc)}")
    # the completion handler of the context is on_request_ready(c != operation_completed)
    need(re.search(r"\(\(\*ctx\)\.\*member\)\(c\s*!=\s*context::operation_completed\)\s*;", ctx), "ct_to_bool")
    need(re.search(r"ct_to_bool\s+cb\s*=\s*\{\s*&context::on_request_ready\s*,\s*self\(\)\s*\}\s*;\s*conn_->async_prepare_request\(this,cb\)\s*;", ctx), "context::run")
    need(re.search(r"async_read_headers\(mfunc_to_event_handler\(&connection::on_headers_read,self\(\),context,h\)\)\s*;", cgi), "async_prepare_request")
    w("")

    # ============================================================ string_map / string_pool
    w("/-! ## CGI environment container (private/string_map.h) -/")
    m = need(re.search(r"#elif\s+1\b(.*?)#else", smap, re.S), "string_map: active variant (#elif 1)")
    act = m.group(1)
    m = need(re.search(r"string_map\(\)\s*\{\s*data_\.resize\((\d+)\)\s*;\s*total_\s*=\s*0\s*;\s*first_\s*=\s*-1\s*;\s*\}", act), "string_map constructor")
    w(f"def smInitSize : Nat := {m.group(1)}")
    # growth path of add(): re-insert in iteration order into the new table, adopt its chain head, swap the tables
    need(re.search(r"int\s+new_first\s*=\s*-1\s*;\s*std::vector<entry>\s+new_data\(data_\.size\(\)\*2\)\s*;\s*for\s*\(\s*iterator\s+p\s*=\s*begin\(\)\s*,\s*e\s*=\s*end\(\)\s*;\s*p\s*!=\s*e\s*;\s*\+\+p\s*\)\s*\{\s*insert\(new_data,\*p,new_first\)\s*;\s*\}\s*first_\s*=\s*new_first\s*;\s*data_\.swap\(new_data\)\s*;\s*\}\s*insert\(data_,new_entry,first_\)\s*;", act),
         "string_map::add growth path (new_first / first_ / swap)")
    m2 = need(re.search(r"void\s+clear\(\)\s*\{\s*data_\.clear\(\)\s*;\s*data_\.resize\((\d+)\)\s*;", act), "string_map::clear")
    if m2.group(1) != m.group(1):
        raise Untranslatable("string_map: clear() and constructor sizes differ")
    b = function_body(act, r"void\s+add\s*\(\s*char\s+const\s*\*\s*key\s*,\s*char\s+const\s*\*\s*value\s*\)\s*\{")
    m = need(re.fullmatch(r"\s*entry\s+new_entry\(key,value\)\s*;\s*if\s*\(([^{]*?)\)\s*\{\s*int\s+new_first\s*=\s*-1\s*;\s*std::vector<entry>\s+new_data\(([^;]*?)\)\s*;\s*"
                          r"for\s*\(\s*iterator\s+p\s*=\s*begin\(\)\s*,\s*e\s*=\s*end\(\)\s*;\s*p\s*!=\s*e\s*;\s*\+\+p\s*\)\s*\{\s*insert\(new_data,\*p,new_first\)\s*;\s*\}\s*"
                          r"first_\s*=\s*new_first\s*;\s*data_\.swap\(new_data\)\s*;\s*\}\s*insert\(data_,new_entry,first_\)\s*;\s*total_\+\+\s*;\s*", b, re.S), "string_map::add shape")
    grow = m.group(1).replace("data_.size()", "size").replace("total_", "total")
    newsz = m.group(2).replace("data_.size()", "size")
    w(f"/-- `if({m.group(1).strip()})` : the table is rebuilt before the new entry goes in -/\ndef smGrow (total size : Nat) : Bool := {c_to_lean(grow)}")
    w(f"/-- `new_data({m.group(2).strip()})` -/\ndef smNewSize (size : Nat) : Nat := {c_to_lean(newsz)}")
    b = function_body(act, r"static\s+void\s+insert\s*\(")
    m = need(re.fullmatch(r"\s*int\s+pos\s*=\s*([^;]+);\s*while\s*\(\s*d\[pos\]\.key\s*\)\s*pos\s*=\s*([^;]+);\s*d\[pos\]\s*=\s*e\s*;\s*d\[pos\]\.next_index\s*=\s*first\s*;\s*first\s*=\s*pos\s*;\s*", b), "string_map::insert shape")
    w(f"/-- `int pos = {m.group(1).strip()}` in `insert` -/\ndef smInsertStart (hash size : Nat) : Nat := {c_to_lean(m.group(1).replace('e.hash', 'hash').replace('d.size()', 'size'))}")
    w(f"/-- `pos = {m.group(2).strip()}` in `insert` -/\ndef smInsertStep (pos size : Nat) : Nat := {c_to_lean(m.group(2).replace('d.size()', 'size'))}")
    b = function_body(act, r"char\s+const\s*\*\s*get\s*\(\s*char\s+const\s*\*\s*ckey\s*\)\s*\{")
    m = need(re.fullmatch(r"\s*entry\s+e\(ckey\)\s*;\s*int\s+pos\s*=\s*([^;]+);\s*while\s*\(\s*data_\[pos\]\.key\s*&&\s*!\(data_\[pos\]\s*==\s*e\)\s*\)\s*pos\s*=\s*([^;]+);\s*"
                          r"if\s*\(\s*data_\[pos\]\.key\s*==\s*0\s*\)\s*return\s+0\s*;\s*return\s+data_\[pos\]\.value\s*;\s*", b), "string_map::get shape")
    w(f"/-- `int pos = {m.group(1).strip()}` in `get` -/\ndef smGetStart (hash size : Nat) : Nat := {c_to_lean(m.group(1).replace('e.hash', 'hash').replace('data_.size()', 'size'))}")
    w(f"/-- `pos = {m.group(2).strip()}` in `get` -/\ndef smGetStep (pos size : Nat) : Nat := {c_to_lean(m.group(2).replace('data_.size()', 'size'))}")
    # string_pool
    m = need(re.search(r"string_pool\(size_t\s+page_size\s*=\s*(\d+)\)", smap), "string_pool page size")
    w(f"def poolPageSize : Nat := {m.group(1)}")
    b = function_body(smap, r"char\s*\*\s*allocate_space\s*\(\s*size_t\s+size\s*\)\s*\{")
    m = need(re.fullmatch(r"\s*if\s*\(([^{]*?)\)\s*\{\s*page\s*\*\s*p\s*=\s*\(page\s*\*\)malloc\(size\s*\+\s*sizeof\(page\)\)\s*;\s*if\(!p\)\s*throw\s+std::bad_alloc\(\)\s*;\s*"
                          r"p->next\s*=\s*pages_->next\s*;\s*pages_->next\s*=\s*p\s*;\s*return\s+p->data\s*;\s*\}\s*if\s*\(([^{]*?)\)\s*\{\s*add_page\(\)\s*;\s*\}\s*"
                          r"char\s*\*\s*result\s*=\s*data_\s*;\s*data_\s*\+=\s*size\s*;\s*free_space_\s*-=\s*size\s*;\s*return\s+result\s*;\s*", b), "string_pool::allocate_space shape")
    w(f"/-- `if({m.group(1).strip()})`: own block, linked in *behind* the head page -/\ndef poolOversized (size page_size_ : Nat) : Bool := {c_to_lean(m.group(1))}")
    w(f"/-- `if({m.group(2).strip()}) add_page();` -/\ndef poolNeedsPage (size free_space_ : Nat) : Bool := {c_to_lean(m.group(2))}")
    b = function_body(smap, r"void\s+clear\s*\(\s*\)\s*\{")
    keeps_head = re.fullmatch(r"\s*page\s*\*\s*p\s*=\s*pages_->next\s*;\s*pages_->next\s*=\s*0\s*;\s*while\s*\(\s*p\s*\)\s*\{\s*page\s*\*\s*next\s*=\s*p->next\s*;\s*free\(p\)\s*;\s*p\s*=\s*next\s*;\s*\}\s*"
                              r"data_\s*=\s*pages_->data\s*;\s*free_space_\s*=\s*page_size_\s*;\s*", b) is not None
    keeps_last = re.fullmatch(r"\s*while\s*\(\s*pages_->next\s*\)\s*\{\s*page\s*\*\s*p\s*=\s*pages_\s*;\s*pages_\s*=\s*pages_->next\s*;\s*free\(p\)\s*;\s*\}\s*"
                              r"data_\s*=\s*pages_->data\s*;\s*free_space_\s*=\s*page_size_\s*;\s*", b) is not None
    if not (keeps_head or keeps_last):
        raise Untranslatable("string_pool::clear shape")
    w("/-- `string_pool::clear()` keeps the head page of its list (the only one known to have `page_size_` bytes); `false`: it\nkeeps the last page of the list -/")
    w(f"def poolClearKeepsHead : Bool := {'true' if keeps_head else 'false'}")
    w("")

    # ============================================================ exit discipline
    w("/-! ## exit discipline of the protocol callbacks -/")
    funcs = [
        (scgi, "scgi::on_first_read", r"void\s+on_first_read\s*\("),
        (scgi, "scgi::on_headers_chunk_read", r"void\s+on_headers_chunk_read\s*\("),
        (fcgi, "fastcgi::on_start_request", r"void\s+on_start_request\s*\("),
        (fcgi, "fastcgi::params_record_expected", r"void\s+params_record_expected\s*\("),
        (fcgi, "fastcgi::stdin_eof_expected", r"void\s+stdin_eof_expected\s*\("),
        (fcgi, "fastcgi::on_params_response_sent", r"void\s+on_params_response_sent\s*\("),
        (fcgi, "fastcgi::on_some_input_recieved", r"void\s+on_some_input_recieved\s*\("),
        (fcgi, "fastcgi::on_read_stdin_eof_expected", r"void\s+on_read_stdin_eof_expected\s*\("),
        (fcgi, "fastcgi::on_header_read", r"void\s+on_header_read\s*\("),
        (fcgi, "fastcgi::on_body_read", r"void\s+on_body_read\s*\("),
        (fcgi, "fastcgi::async_read_some", r"virtual\s+void\s+async_read_some\s*\("),
        (fcgi, "fastcgi::async_read_from_socket", r"void\s+async_read_from_socket\s*\("),
        (fcgi, "fastcgi::on_some_read_from_socket", r"void\s+on_some_read_from_socket\s*\("),
        (http, "http::some_headers_data_read", r"virtual\s+void\s+some_headers_data_read\s*\("),
        (http, "http::process_request", r"virtual\s+void\s+process_request\s*\("),
        (http, "http::on_error_response_written", r"void\s+on_error_response_written\s*\("),
    ]
    rows = []
    for src, nme, sig in funcs:
        body = function_body(src, sig)
        bad = check_tail_calls(split_statements(body), nme)
        rows.append((nme, bad))
    w("/-- (callback, continuation calls that are not followed by `return` / do not end their path) -/")
    w("def exitViolations : List (String × List String) := [" +
      ", ".join('("%s", [%s])' % (n, ", ".join('"%s"' % x.replace('"', "'") for x in b)) for n, b in rows) + "]")

    w("\nend Cppcms.C01.Gen")
    path = os.path.join(lean, "Cppcms", "C01", "Gen.lean")
    changed = write_if_changed(path, "\n".join(o) + "\n")
    print(("rewrote " if changed else "unchanged ") + path)


if __name__ == "__main__":
    try:
        main(sys.argv[1], sys.argv[2])
    except Untranslatable as e:
        print("UNTRANSLATABLE: " + str(e))
        sys.exit(2)
