#!/usr/bin/env python3
"""C17 extractor: booster/lib/aio/src/io_service.cpp + src/thread_pool.cpp -> Cppcms/C17/Gen.lean

What is regenerated (clang-14 JSON AST, so overload resolution is the compiler's, not a regex's):
  * for every method of event_loop_impl (and of its nested functors) and of cppcms::impl::thread_pool
    that has a body: does the first statement construct the lock guard on the object's mutex, and
    does the body mention any of the members the mutex protects  -> `loopLockTable`, `poolLockTable`;
  * for every construction of a `completion_handler` from a stored callback: which overload the
    compiler selected -- `T &` (moves the callback out, leaves the slot empty) or `T const &`
    (copies; the slot keeps a second reference)  -> `...Moves : Bool` used by Model.lean;
  * the shape of the slot assignment in io_event_setter (direct overwrite of readable/writeable);
  * the shape of thread_pool::worker (shutdown test first, swap-out + pop_front under the lock,
    job run outside the lock inside try/catch(...) that does not rethrow), and of cancel/post/stop.
usage: c17.py <repo> <lean dir> [<dir with generated config headers or scratch dir for stubs>]
exit 2 + message when the source no longer has the expected shape.
"""
import sys, os, re, json, subprocess
sys.path.insert(0, os.path.dirname(os.path.abspath(__file__)))
from cexpr import Untranslatable, strip_c_comments, function_body, write_if_changed

LOOP_STATE = ["dispatch_queue_", "map_", "timer_events_", "timer_events_index_", "stop_", "polling_",
              "reactor_", "interrupter_", "seed_"]
POOL_STATE = ["queue_", "shut_down_", "job_id_"]


def clang_ast(src, incs, flt):
    cmd = ["clang++-14", "-std=gnu++17", "-fsyntax-only", "-w"] + ["-I" + i for i in incs] + \
          ["-Xclang", "-ast-dump=json", "-Xclang", "-ast-dump-filter=" + flt, src]
    p = subprocess.run(cmd, stdout=subprocess.PIPE, stderr=subprocess.PIPE)
    if p.returncode != 0:
        raise Untranslatable("clang cannot parse " + src + ": " + p.stderr.decode()[-1500:])
    txt = p.stdout.decode()
    dec = json.JSONDecoder()
    i, objs = 0, []
    while i < len(txt):
        while i < len(txt) and txt[i].isspace():
            i += 1
        if i >= len(txt):
            break
        o, i = dec.raw_decode(txt, i)
        objs.append(o)
    return objs


def off(loc):
    if "offset" in loc:
        return loc["offset"], loc.get("tokLen", 0)
    for k in ("expansionLoc", "spellingLoc"):
        if k in loc and "offset" in loc[k]:
            return loc[k]["offset"], loc[k].get("tokLen", 0)
    return None, 0


def text_of(node, src):
    r = node.get("range", {})
    b, _ = off(r.get("begin", {}))
    e, tl = off(r.get("end", {}))
    if b is None or e is None:
        return "?"
    return re.sub(r"\s+", "", src[b:e + tl])


def sig(n):
    q = n.get("type", {}).get("qualType", "")
    m = re.match(r"[^(]*\((.*)\)[^)]*$", q)
    return (m.group(1) if m else "").replace("booster::system::", "").replace("booster::aio::", "").replace("booster::", "")


def mentions(n, names):
    if n.get("kind") == "MemberExpr" and n.get("name") in names:
        return True
    return any(mentions(c, names) for c in n.get("inner", []) or [])


def first_stmt_is_lock(body, guard_types, mutex):
    """first statement of the compound body is `guard l(mutex)` (also accepted: wrapped in one nested block)"""
    inner = [c for c in body.get("inner", []) or []]
    if not inner:
        return False
    st = inner[0]
    if st.get("kind") == "CompoundStmt":
        return first_stmt_is_lock(st, guard_types, mutex)
    if st.get("kind") != "DeclStmt":
        return False
    for v in st.get("inner", []) or []:
        if v.get("kind") == "VarDecl" and any(g in v.get("type", {}).get("qualType", "") for g in guard_types):
            return mentions(v, [mutex])
    return False


def methods(rec, prefix, out, guard_types, mutex, state):
    for c in rec.get("inner", []) or []:
        k = c.get("kind")
        if k == "CXXRecordDecl" and c.get("name") and c.get("inner") and not c.get("isImplicit"):
            methods(c, prefix + c["name"] + "::", out, guard_types, mutex, state)
        elif k == "FunctionTemplateDecl":
            # use the template pattern itself (first CXXMethodDecl child)
            for d in c.get("inner", []):
                if d.get("kind") == "CXXMethodDecl":
                    body = [x for x in d.get("inner", []) or [] if x.get("kind") == "CompoundStmt"]
                    if body:
                        out.append((prefix + d["name"] + "<F>(" + sig(d) + ")", first_stmt_is_lock(body[0], guard_types, mutex), mentions(body[0], state), d, prefix + d["name"]))
                    break
        elif k in ("CXXMethodDecl", "CXXConstructorDecl", "CXXDestructorDecl") and not c.get("isImplicit"):
            body = [x for x in c.get("inner", []) or [] if x.get("kind") == "CompoundStmt"]
            if body:
                out.append((prefix + c["name"] + "(" + sig(c) + ")", first_stmt_is_lock(body[0], guard_types, mutex), mentions(body[0], state), c, prefix + c["name"]))


def ctor_sites(n, src, out, fn):
    k = n.get("kind")
    if k in ("CXXConstructExpr", "CXXTemporaryObjectExpr") and "completion_handler" in n.get("type", {}).get("qualType", ""):
        ct = n.get("ctorType", {}).get("qualType", "")
        args = [a for a in n.get("inner", []) or []]
        if args and "completion_handler" not in ct.split("(")[1]:   # skip copy/move of completion_handler itself and default ctor
            first = ct.split("(")[1].split(",")[0].strip().rstrip(")")
            out.append((fn, text_of(args[0], src), first))
    for c in n.get("inner", []) or []:
        ctor_sites(c, src, out, fn)


def lean_str(s):
    return '"' + s.replace("\\", "\\\\").replace('"', '\\"') + '"'


def find_headers(repo, extra):
    cands = []
    if extra:
        cands += [os.path.join(extra, "asan"), extra]
    cands += [os.path.join(repo, "_build")]
    for c in cands:
        if os.path.exists(os.path.join(c, "booster", "booster", "build_config.h")) and os.path.exists(os.path.join(c, "cppcms", "config.h")):
            return [c, os.path.join(c, "booster")]
    # fall back on empty stubs: nothing in the two translated classes depends on configure results on Linux
    d = os.path.join(extra or os.path.join(os.path.dirname(os.path.abspath(__file__)), "..", ".build"), "c17-stub-include")
    for f in ("booster/build_config.h", "cppcms/config.h"):
        p = os.path.join(d, f)
        os.makedirs(os.path.dirname(p), exist_ok=True)
        if not os.path.exists(p):
            open(p, "w").close()
    return [d]



KBITS = {  # Linux values (asm-generic/poll.h, sys/epoll.h): trusted constants
    "POLLIN": 1, "POLLPRI": 2, "POLLOUT": 4, "POLLERR": 8, "POLLHUP": 16, "POLLNVAL": 32, "POLLRDNORM": 64,
    "POLLRDBAND": 128, "POLLWRNORM": 256, "POLLWRBAND": 512, "POLLMSG": 1024, "POLLRDHUP": 8192,
    "EPOLLIN": 1, "EPOLLPRI": 2, "EPOLLOUT": 4, "EPOLLERR": 8, "EPOLLHUP": 16, "EPOLLRDNORM": 64, "EPOLLRDBAND": 128,
    "EPOLLWRNORM": 256, "EPOLLWRBAND": 512, "EPOLLMSG": 1024, "EPOLLRDHUP": 8192,
}


def mask_value(expr, names):
    expr = expr.strip()
    if expr.startswith("(") and expr.endswith(")"):
        expr = expr[1:-1]
    v = 0
    for part in expr.split("|"):
        part = part.strip()
        if part not in names:
            raise Untranslatable("reactor event table: unknown constant " + part)
        v |= names[part]
    return v


def event_table(body, var, out, src_names, dst_names, what):
    """body of `int f(int event){ int out=0; if(event & MASK) out|=CONST; ... return out; }` -> [(mask, bits)]"""
    body = body.strip()
    m = re.fullmatch(r"int\s+" + out + r"\s*=\s*0\s*;(.*)return\s+" + out + r"\s*;", body, re.S)
    if not m:
        raise Untranslatable(what + ": shape (int x=0; if(...) x|=...; return x;)")
    rows = []
    rest = m.group(1)
    pos = 0
    rx = re.compile(r"\s*if\s*\(\s*" + var + r"\s*&\s*(\([^()]*\)|[A-Za-z_:]+)\s*\)\s*" + out + r"\s*\|=\s*([A-Za-z_:]+)\s*;")
    while True:
        mm = rx.match(rest, pos)
        if not mm:
            break
        rows.append((mask_value(mm.group(1), src_names), mask_value(mm.group(2), dst_names)))
        pos = mm.end()
    if rest[pos:].strip() or not rows:
        raise Untranslatable(what + ": statement not understood: " + rest[pos:].strip()[:80])
    return rows


def class_body(src, name):
    return function_body(src, r"class\s+" + name + r"\b[^{;]*\{")


def reactor_tables(repo, w):
    types = strip_c_comments(open(os.path.join(repo, "booster/booster/aio/types.h")).read())
    user = {}
    for nm in ("in", "out", "err"):
        m = re.search(r"static\s+const\s+int\s+" + nm + r"\s*=\s*1\s*<<\s*(\d+)\s*;", types)
        if not m:
            raise Untranslatable("io_events::" + nm)
        user["reactor::" + nm] = 1 << int(m.group(1))
    rsrc = strip_c_comments(open(os.path.join(repo, "booster/lib/aio/src/reactor.cpp")).read())
    base = class_body(rsrc, "base_poll_reactor")
    ep = class_body(rsrc, "epoll_reactor")
    pl = class_body(rsrc, "poll_reactor")
    sel = class_body(rsrc, "select_reactor")
    tabs = {}
    tabs["pollFromUser"] = event_table(function_body(base, r"int\s+to_poll_events\s*\(\s*int\s+event\s*\)\s*\{"), "event", "pe", user, KBITS, "base_poll_reactor::to_poll_events")
    tabs["pollToUser"] = event_table(function_body(base, r"int\s+to_user_events\s*\(\s*int\s+event\s*\)\s*\{"), "event", "ue", KBITS, user, "base_poll_reactor::to_user_events")
    tabs["epollFromUser"] = event_table(function_body(ep, r"int\s+to_poll_events\s*\(\s*int\s+event\s*\)\s*\{"), "event", "pe", user, KBITS, "epoll_reactor::to_poll_events")
    tabs["epollToUser"] = event_table(function_body(ep, r"int\s+to_user_events\s*\(\s*int\s+event\s*\)\s*\{"), "event", "ue", KBITS, user, "epoll_reactor::to_user_events")
    # the poll functions use these tables on what the kernel returned, and on nothing else
    if not re.search(r"events\[read\]\.events\s*=\s*to_user_events\(fds\[i\]\.events\)\s*;\s*events\[read\]\.fd\s*=\s*fds\[i\]\.data\.fd\s*;", ep):
        raise Untranslatable("epoll_reactor::poll: events[read].events = to_user_events(fds[i].events)")
    if not re.search(r"write_flag\(fd,EPOLL_CTL_ADD,to_poll_events\(flags\),error\)", ep) or not re.search(r"write_flag\(fd,EPOLL_CTL_MOD,to_poll_events\(flags\),error\)", ep):
        raise Untranslatable("epoll_reactor::select: registration through to_poll_events")
    if not re.search(r"if\s*\(\s*pollfds_\[i\]\.revents\s*==\s*POLLNVAL\s*\)\s*\{\s*remove\(pollfds_\[i\]\.fd\)\s*;\s*count\s*--\s*;\s*continue\s*;\s*\}\s*"
                     r"if\s*\(\s*pollfds_\[i\]\.revents\s*!=\s*0\s*\)\s*\{\s*events\[read\]\.events\s*=\s*to_user_events\(pollfds_\[i\]\.revents\)\s*;", pl):
        raise Untranslatable("poll_reactor::poll: POLLNVAL removal / to_user_events(revents)")
    if not re.search(r"entry\(fd\)\.events\s*=\s*to_poll_events\(flags\)\s*;", pl):
        raise Untranslatable("poll_reactor::select: registration through to_poll_events")
    # select(): fd sets; kernel report bits r=1 w=2 e=4
    selk = {"r": 1, "w": 2, "e": 4}
    if not re.search(r"if\s*\(\s*flags\s*&\s*reactor::in\s*\)\s*FD_SET\(fd,&rd\)\s*;\s*if\s*\(\s*flags\s*&\s*reactor::out\s*\)\s*FD_SET\(fd,&wr\)\s*;\s*FD_SET\(fd,&er\)\s*;", sel):
        raise Untranslatable("select_reactor::poll: FD_SET by requested flags")
    m = re.search(r"bool\s+r\s*=\s*FD_ISSET\(fd,&rd\)\s*;.*?bool\s+w\s*=\s*FD_ISSET\(fd,&wr\)\s*;.*?bool\s+e\s*=\s*FD_ISSET\(fd,&er\)\s*;.*?"
                  r"if\s*\(\s*r\s*\|\|\s*w\s*\|\|\s*e\s*\)\s*\{.*?ev\.events\s*=\s*0\s*;(.*?)count\+\+\s*;\s*\}", sel, re.S)
    if not m:
        raise Untranslatable("select_reactor::poll: report shape")
    rows = re.findall(r"if\s*\(\s*([rwe])\s*\)\s*ev\.events\s*\|=\s*(reactor::\w+)\s*;", m.group(1))
    if re.sub(r"if\s*\(\s*[rwe]\s*\)\s*ev\.events\s*\|=\s*reactor::\w+\s*;", "", m.group(1)).strip() or not rows:
        raise Untranslatable("select_reactor::poll: report statements")
    tabs["selectToUser"] = [(selk[a], user[b]) for a, b in rows]
    tabs["selectFromUser"] = [(user["reactor::in"], 1), (user["reactor::out"], 2)]
    w("/-- reactor::in / out / err (booster/aio/types.h) -/")
    w(f"def userIn : Nat := {user['reactor::in']}")
    w(f"def userOut : Nat := {user['reactor::out']}")
    w(f"def userErr : Nat := {user['reactor::err']}")
    w("/-- event translation tables of reactor.cpp: (mask tested, bits set).  Kernel bits: Linux POLL*/EPOLL* values; for")
    w("    select the kernel's report is r=1 (in the read set) w=2 e=4 -/")
    for k in ("epollToUser", "epollFromUser", "pollToUser", "pollFromUser", "selectToUser", "selectFromUser"):
        w(f"def {k} : List (Nat × Nat) := [" + ", ".join(f"({a}, {b})" for a, b in tabs[k]) + "]")
    w("")


def split_if_else(body):
    """straight-line body or one top-level `if(c){A}else{B}` preceded by declarations -> list of branch texts"""
    m = re.search(r"\bif\s*\(", body)
    if not m:
        return [body]
    # find matching ')' of the condition
    i = body.index("(", m.start())
    depth, j = 0, i
    while j < len(body):
        if body[j] == "(":
            depth += 1
        elif body[j] == ")":
            depth -= 1
            if depth == 0:
                break
        j += 1
    rest = body[j + 1:].lstrip()
    if not rest.startswith("{"):
        raise Untranslatable("device entry point: if without a block")
    depth, k = 0, 0
    while k < len(rest):
        if rest[k] == "{":
            depth += 1
        elif rest[k] == "}":
            depth -= 1
            if depth == 0:
                break
        k += 1
    then_part = rest[1:k]
    after = rest[k + 1:].lstrip()
    pre = body[:m.start()]
    if after.startswith("else"):
        after = after[4:].lstrip()
        if not after.startswith("{"):
            raise Untranslatable("device entry point: else without a block")
        depth, q = 0, 0
        while q < len(after):
            if after[q] == "{":
                depth += 1
            elif after[q] == "}":
                depth -= 1
                if depth == 0:
                    break
            q += 1
        else_part = after[1:q]
        tail = after[q + 1:]
        return [pre + then_part + tail, pre + else_part + tail]
    return [pre + then_part + after, pre + after]


def count_completions(txt):
    posts = len(re.findall(r"\bpost\s*\(\s*h\b", txt)) + len(re.findall(r"(?<![\w>.])h\s*\(", txt))
    arms = len(re.findall(r"\bon_readable\s*\(", txt)) + len(re.findall(r"\bon_writeable\s*\(", txt)) + len(re.findall(r"->\s*run\s*\(\s*\)", txt))
    return posts, arms


def device_tables(repo, w):
    def prep(path):
        t = strip_c_comments(open(os.path.join(repo, path)).read())
        return re.sub(r"#ifdef\s+BOOSTER_AIO_FORCE_POLL(.*?)#else(.*?)#endif", lambda m: m.group(2), t, flags=re.S)
    dev = prep("booster/lib/aio/src/basic_io_device.cpp")
    ss = prep("booster/lib/aio/src/stream_socket.cpp")
    ac = prep("booster/lib/aio/src/acceptor.cpp")
    # dont_block overloads: what the error branch does
    for kind, sig in (("Io", r"bool\s+basic_io_device::dont_block\s*\(\s*io_handler\s+const\s*&\s*h\s*\)\s*\{"),
                      ("Ev", r"bool\s+basic_io_device::dont_block\s*\(\s*event_handler\s+const\s*&\s*h\s*\)\s*\{")):
        body = function_body(dev, sig)
        m = re.match(r"\s*if\s*\(\s*nonblocking_was_set_\s*\)\s*return\s+true\s*;\s*system::error_code\s+e\s*;\s*set_non_blocking\(true,e\)\s*;\s*if\s*\(\s*e\s*\)\s*", body)
        if not m:
            raise Untranslatable("basic_io_device::dont_block: prologue shape")
        rest = body[m.end():]
        if rest.startswith("{"):
            depth, k = 0, 0
            while k < len(rest):
                if rest[k] == "{":
                    depth += 1
                elif rest[k] == "}":
                    depth -= 1
                    if depth == 0:
                        break
                k += 1
            then_part, after = rest[1:k], rest[k + 1:]
        else:
            k = rest.index(";")
            then_part, after = rest[:k + 1], rest[k + 1:]
        after = re.sub(r"^\s*else\s*(\{[^{}]*\}|[^;]*;)", "", after)      # the else part is not on the error path
        posts = len(re.findall(r"\bpost\s*\(\s*h\b", then_part))
        r = re.search(r"\breturn\s+(true|false)\s*;", then_part)
        if not r:
            r = re.search(r"\breturn\s+(true|false)\s*;", after)
            posts += len(re.findall(r"\bpost\s*\(\s*h\b", after[:r.start()] if r else after))
        if not r:
            raise Untranslatable("basic_io_device::dont_block: no return on the error path")
        w(f"/-- `dont_block({'io_handler' if kind == 'Io' else 'event_handler'})`, branch `if(e)`: number of `post(h,…)`, value returned -/")
        w(f"def dontBlock{kind}PostsOnError : Nat := {posts}")
        w(f"def dontBlock{kind}ReturnsOnError : Bool := {r.group(1)}")
    entries = []
    for src, cls, name, sigrx, kind in (
            (ss, "stream_socket", "async_write_some", r"void\s+stream_socket::async_write_some\s*\([^)]*io_handler\s+const\s*&\s*h\s*\)\s*\{", "io"),
            (ss, "stream_socket", "async_read_some", r"void\s+stream_socket::async_read_some\s*\([^)]*io_handler\s+const\s*&\s*h\s*\)\s*\{", "io"),
            (ss, "stream_socket", "async_connect", r"void\s+stream_socket::async_connect\s*\([^)]*event_handler\s+const\s*&\s*h\s*\)\s*\{", "ev"),
            (ss, "stream_socket", "async_read", r"void\s+stream_socket::async_read\s*\([^)]*io_handler\s+const\s*&\s*h\s*\)\s*\{", "io"),
            (ss, "stream_socket", "async_write", r"void\s+stream_socket::async_write\s*\([^)]*io_handler\s+const\s*&\s*h\s*\)\s*\{", "io"),
            (ac, "acceptor", "async_accept", r"void\s+acceptor::async_accept\s*\([^)]*event_handler\s+const\s*&\s*h\s*\)\s*\{", "ev")):
        body = function_body(src, sigrx)
        g = re.match(r"\s*if\s*\(\s*!dont_block\(h\)\s*\)\s*return\s*;", body)
        rest = body[g.end():] if g else body
        branches = [count_completions(b) for b in split_if_else(rest)]
        entries.append((cls + "::" + name, kind, bool(g), branches))
    w("/-- asynchronous entry points of the device wrappers: (name, handler kind, first statement is `if(!dont_block(h)) return;`,")
    w("    for every branch after the guard: (completions of h posted or called, waits armed / continuation objects started)) -/")
    w("def deviceEntries : List (String × String × Bool × List (Nat × Nat)) := [")
    w(",\n".join(f"  ({lean_str(n)}, {lean_str(k)}, {str(g).lower()}, [" + ", ".join(f"({a}, {b})" for a, b in br) + "])" for n, k, g, br in entries))
    w("]\n")


def epoll_cache_shape(repo, w):
    rsrc = strip_c_comments(open(os.path.join(repo, "booster/lib/aio/src/reactor.cpp")).read())
    ep = class_body(rsrc, "epoll_reactor")
    body = function_body(ep, r"virtual\s+void\s+select\s*\(\s*native_type\s+fd\s*,\s*int\s+flags\s*,\s*int\s*&\s*error\s*\)\s*\{")
    m = re.fullmatch(r"\s*if\s*\(\s*!check\(fd,error\)\s*\)\s*return\s*;\s*"
                     r"if\s*\(\s*events_\[fd\]\s*!=\s*0\s*&&\s*flags\s*==\s*0\s*\)\s*write_flag\(fd,EPOLL_CTL_DEL,0,error\)\s*;\s*"
                     r"else\s+if\s*\(\s*events_\[fd\]\s*==\s*0\s*&&\s*flags\s*!=\s*0\s*\)\s*write_flag\(fd,EPOLL_CTL_ADD,to_poll_events\(flags\),error\)\s*;\s*"
                     r"else\s+if\s*\(\s*events_\[fd\]\s*!=\s*flags\s*\)\s*write_flag\(fd,EPOLL_CTL_MOD,to_poll_events\(flags\),error\)\s*;\s*"
                     r"(if\s*\(\s*error\s*\)\s*return\s*;\s*)?events_\[fd\]\s*=\s*flags\s*;\s*", body)
    if not m:
        raise Untranslatable("epoll_reactor::select: DEL/ADD/MOD decision on the cache events_[fd] followed by events_[fd]=flags")
    wf = function_body(ep, r"void\s+write_flag\s*\(\s*int\s+fd\s*,\s*int\s+op\s*,\s*int\s+flags\s*,\s*int\s*&\s*error\s*\)\s*\{")
    if not re.search(r"if\s*\(\s*::epoll_ctl\(pollfd_,op,fd,&efd\)\s*<\s*0\s*\)\s*\{\s*error\s*=\s*errno\s*;\s*return\s*;\s*\}", wf):
        raise Untranslatable("epoll_reactor::write_flag: shape")
    w("/-- epoll_reactor::select: DEL if cache≠0∧flags=0, ADD if cache=0∧flags≠0, MOD if cache≠flags (shape verified); the new interest")
    w("    set is recorded in `events_[fd]` also when epoll_ctl failed (no early return before `events_[fd]=flags`) -/")
    w(f"def epollRecordsOnError : Bool := {'false' if m.group(1) else 'true'}\n")


# ---------------------------------------------------------------- path enumeration over a function body
def _skip_ws(t, i):
    while i < len(t) and t[i].isspace():
        i += 1
    return i


def _match(t, i, open_c, close_c):
    depth = 0
    j = i
    while j < len(t):
        if t[j] == open_c:
            depth += 1
        elif t[j] == close_c:
            depth -= 1
            if depth == 0:
                return j
        j += 1
    raise Untranslatable("unbalanced " + open_c)


def _parse_stmt(t, i):
    """-> (node, next index); node = ('if', cond, then_nodes, else_nodes|None) | ('block', nodes) | ('simple', text)"""
    i = _skip_ws(t, i)
    if t.startswith("{", i):
        j = _match(t, i, "{", "}")
        return ("block", _parse_stmts(t[i + 1:j])), j + 1
    m = re.match(r"if\s*\(", t[i:])
    if m:
        k = _match(t, i + m.end() - 1, "(", ")")
        then_node, n = _parse_stmt(t, k + 1)
        n2 = _skip_ws(t, n)
        m2 = re.match(r"else\b", t[n2:])
        if m2:
            else_node, n3 = _parse_stmt(t, n2 + m2.end())
            return ("if", t[i:k + 1], [then_node], [else_node]), n3
        return ("if", t[i:k + 1], [then_node], None), n
    if re.match(r"(for|while|switch|do)\b", t[i:]):
        raise Untranslatable("completion functor: loop/switch statement not understood: " + t[i:i + 40])
    # simple statement up to ';' at depth 0
    depth, j = 0, i
    while j < len(t):
        if t[j] in "({":
            depth += 1
        elif t[j] in ")}":
            depth -= 1
        elif t[j] == ";" and depth == 0:
            break
        j += 1
    return ("simple", t[i:j + 1]), j + 1


def _parse_stmts(t):
    nodes, i = [], 0
    while _skip_ws(t, i) < len(t):
        node, i = _parse_stmt(t, i)
        nodes.append(node)
    return nodes


def _count_simple(txt):
    calls = len(re.findall(r"(?<![\w>.:])h\s*\(", txt)) + len(re.findall(r"\bpost\s*\(\s*h\b", txt))
    arms = (len(re.findall(r"\bon_readable\s*\(", txt)) + len(re.findall(r"\bon_writeable\s*\(", txt))
            + len(re.findall(r"\basync_accept\s*\(", txt)) + len(re.findall(r"->\s*run\s*\(\s*\)", txt)))
    return calls, arms, bool(re.match(r"\s*return\b", txt))


def _paths(nodes):
    """all paths through a statement list: list of (calls, arms, returned)"""
    res = [(0, 0, False)]
    for nd in nodes:
        nxt = []
        for c, a, done in res:
            if done:
                nxt.append((c, a, True))
                continue
            if nd[0] == "simple":
                c2, a2, r2 = _count_simple(nd[1])
                nxt.append((c + c2, a + a2, r2))
            elif nd[0] == "block":
                for c2, a2, r2 in _paths(nd[1]):
                    nxt.append((c + c2, a + a2, r2))
            else:
                cc, ca, _ = _count_simple(nd[1])       # calls inside the condition itself (none expected)
                for c2, a2, r2 in _paths(nd[2]):
                    nxt.append((c + cc + c2, a + ca + a2, r2))
                if nd[3] is not None:
                    for c2, a2, r2 in _paths(nd[3]):
                        nxt.append((c + cc + c2, a + ca + a2, r2))
                else:
                    nxt.append((c + cc, a + ca, False))
        res = nxt
    return res


def functor_tables(repo, w):
    def prep(path):
        t = strip_c_comments(open(os.path.join(repo, path)).read())
        t = re.sub(r"#ifdef\s+BOOSTER_AIO_FORCE_POLL(.*?)#else(.*?)#endif", lambda m: m.group(2), t, flags=re.S)
        t = re.sub(r"#ifdef\s+BOOSTER_WIN32(.*?)#else(.*?)#endif", lambda m: m.group(2), t, flags=re.S)
        t = re.sub(r"#ifndef\s+BOOSTER_WIN32(.*?)#else(.*?)#endif", lambda m: m.group(1), t, flags=re.S)
        return t
    ss = prep("booster/lib/aio/src/stream_socket.cpp")
    ac = prep("booster/lib/aio/src/acceptor.cpp")
    rows = []
    for src, name, fns in ((ss, "reader_some", ["operator()"]), (ss, "writer_some", ["operator()"]), (ss, "async_connector", ["operator()"]),
                           (ss, "reader_all", ["run", "operator()"]), (ss, "writer_all", ["run", "operator()"]),
                           (ac, "async_acceptor", ["operator()"])):
        body = function_body(src, r"struct\s+" + name + r"\b[^{;]*\{")
        for fn in fns:
            rx = (r"void\s+operator\(\)\s*\(\s*system::error_code\s+const\s*&\s*e\s*\)\s*\{" if fn == "operator()"
                  else r"void\s+run\s*\(\s*\)\s*\{")
            fb = function_body(body, rx)
            ps = _paths(_parse_stmts(fb))
            rows.append((name + "::" + fn, [(c, a) for c, a, _ in ps]))
    conds = []
    for src, name in ((ss, "reader_some"), (ss, "writer_some"), (ss, "reader_all"), (ss, "writer_all"), (ac, "async_acceptor")):
        body = function_body(src, r"struct\s+" + name + r"\b[^{;]*\{")
        fb = function_body(body, r"void\s+operator\(\)\s*\(\s*system::error_code\s+const\s*&\s*e\s*\)\s*\{")
        cs = []
        for m in re.finditer(r"\bif\s*\(", fb):
            k = _match(fb, m.end() - 1, "(", ")")
            cs.append(re.sub(r"\s+", "", fb[m.end():k]))
        conds.append((name, cs))
    w("/-- the conditions of the if statements of the functors' operator() (white space removed), in source order: which")
    w("    outcome of the read/write/accept re-arms and which completes -/")
    w("def functorConds : List (String × List String) := [")
    w(",\n".join(f"  ({lean_str(n)}, [" + ", ".join(lean_str(c) for c in cs) + "])" for n, cs in conds))
    w("]\n")
    dev = prep("booster/lib/aio/src/basic_io_device.cpp")
    cb = function_body(dev, r"void\s+basic_io_device::close\s*\(\s*system::error_code\s*&\s*e\s*\)\s*\{")
    if not re.fullmatch(r"\s*if\s*\(\s*fd_\s*==\s*invalid_socket\s*\)\s*return\s*;\s*if\s*\(\s*has_io_service\(\)\s*\)\s*cancel\(\)\s*;\s*"
                        r"if\s*\(\s*!owner_\s*\)\s*return\s*;\s*if\s*\(\s*close_file_descriptor\(fd_\)\s*\)\s*e\s*=\s*geterror\(\)\s*;\s*"
                        r"fd_\s*=\s*invalid_socket\s*;\s*nonblocking_was_set_\s*=\s*false\s*;\s*", cb):
        raise Untranslatable("basic_io_device::close(error_code&): expected `if(fd_==invalid) return; if(has_io_service()) cancel(); "
                             "if(!owner_) return; close; fd_=invalid; …` (pending waits are cancelled BEFORE the ownership test)")
    for fn in ("attach", "assign"):
        ab = function_body(dev, r"void\s+basic_io_device::" + fn + r"\s*\(\s*native_type\s+fd\s*\)\s*\{")
        if not re.match(r"\s*system::error_code\s+e\s*;\s*close\(e\)\s*;\s*fd_\s*=\s*fd\s*;", ab):
            raise Untranslatable("basic_io_device::" + fn + ": close(e) before taking the new descriptor")
    w("/-- basic_io_device::close cancels the pending waits before testing ownership; attach/assign close first (shape verified) -/")
    w("def closeCancelsBeforeOwnerTest : Bool := true\n")
    w("/-- completion functors of stream_socket.cpp / acceptor.cpp: for every path through the function (if/else tree, early")
    w("    returns): (user handler called or posted, waits re-armed / continuation restarted) -/")
    w("def functorPaths : List (String × List (Nat × Nat)) := [")
    w(",\n".join(f"  ({lean_str(n)}, [" + ", ".join(f"({c}, {a})" for c, a in ps) + "])" for n, ps in rows))
    w("]\n")


def main(repo, lean, extra=None):
    io_path = os.path.join(repo, "booster/lib/aio/src/io_service.cpp")
    tp_path = os.path.join(repo, "src/thread_pool.cpp")
    io_src = open(io_path).read()
    tp_src = open(tp_path).read()
    gen_inc = find_headers(repo, extra)
    incs = [repo, os.path.join(repo, "booster"), os.path.join(repo, "booster/lib/aio/src")] + gen_inc
    o = []
    w = o.append
    w("/- GENERATED by translate/c17.py from booster/lib/aio/src/io_service.cpp and src/thread_pool.cpp (clang AST). Do not edit. -/")
    w("namespace Cppcms.C17.Gen\n")

    # ------------------------------------------------------------------ event loop
    objs = [x for x in clang_ast(io_path, incs, "event_loop_impl") if x.get("kind") == "CXXRecordDecl" and x.get("inner")]
    objs = [x for x in objs if any(c.get("kind") == "CXXMethodDecl" for c in x.get("inner", []))]
    if len(objs) != 1:
        raise Untranslatable(f"expected one definition of event_loop_impl, found {len(objs)}")
    rec = objs[0]
    ms = []
    methods(rec, "", ms, ["lock_guard", "unique_lock"], "data_mutex_", LOOP_STATE)
    ms = [m for m in ms if not m[0].startswith("completion_handler::") and not m[0].startswith("socket_map")]
    names = [m[0] for m in ms]
    for need in ("post(", "set_timer_event(", "cancel_timer_event(", "stop(", "run_one(", "set_event(", "set_event<F>(",
                 "io_event_setter::operator()(", "io_event_canceler::operator()(", "set_io_event(", "cancel_io_events(", "reset("):
        if not any(n.startswith(need) for n in names):
            raise Untranslatable("event_loop_impl: method not found: " + need)
    w("/-- (method, first statement constructs `lock_guard l(data_mutex_)`, body mentions a member protected by data_mutex_) -/")
    w("def loopLockTable : List (String × Bool × Bool) := [")
    w(",\n".join(f"  ({lean_str(n)}, {str(l).lower()}, {str(t).lower()})" for n, l, t, _, _ in ms))
    w("]\n")

    helpers = ["wake", "rand", "randomize_events", "cancelation_is_needed_with_data_mutex_locked"]
    edges = []

    def calls(n, acc):
        if n.get("kind") == "MemberExpr" and n.get("name") in helpers:
            acc.add(n["name"])
        for c in n.get("inner", []) or []:
            calls(c, acc)
    for n, l, t, node, plain in ms:
        acc = set()
        calls(node, acc)
        for callee in sorted(acc):
            edges.append((n, callee))
    w("/-- helpers that touch loop state without taking the lock themselves, and every (caller, helper) call edge -/")
    w("def unlockedHelpers : List String := [" + ", ".join(lean_str(h) for h in helpers) + "]")
    w("def helperCallEdges : List (String × String) := [")
    w(",\n".join(f"  ({lean_str(a)}, {lean_str(b)})" for a, b in edges))
    w("]\n")

    sites = []
    for n, l, t, node, plain in ms:
        ctor_sites(node, io_src, sites, plain)
    # the template instantiations are children of the FunctionTemplateDecl; take them as well
    for c in rec.get("inner", []):
        if c.get("kind") == "FunctionTemplateDecl":
            for d in c.get("inner", [])[1:]:
                if d.get("kind") == "CXXMethodDecl":
                    ctor_sites(d, io_src, sites, d["name"] + "<inst>")
    w("/-- every construction of a completion_handler from a callback: (function, first argument, first parameter type of the selected overload) -/")
    w("def ctorSites : List (String × String × String) := [")
    w(",\n".join(f"  ({lean_str(f)}, {lean_str(a)}, {lean_str(p)})" for f, a, p in sites))
    w("]\n")

    def moving(fn, arg):
        hits = [p for f, a, p in sites if f == fn and a == arg]
        if len(hits) != 1:
            raise Untranslatable(f"completion_handler construction site {fn}({arg}…): expected exactly one, found {len(hits)}")
        p = hits[0]
        if "const" in p:
            return False
        if p.endswith("&"):
            return True
        raise Untranslatable(f"site {fn}({arg}): unexpected parameter type {p}")

    named = [
        ("cancelTimerMoves", "cancel_timer_event", "evptr->second.h"),
        ("cancelerReadableMoves", "io_event_canceler::operator()", "cont.readable"),
        ("cancelerWriteableMoves", "io_event_canceler::operator()", "cont.writeable"),
        ("expireTimerMoves", "run_one", "evptr->second.h"),
        ("dispatchReadableMoves", "run_one", "cont.readable"),
        ("dispatchWriteableMoves", "run_one", "cont.writeable"),
    ]
    for lean_name, fn, arg in named:
        w(f"/-- `{fn}`: `completion_handler({arg},…)` selects the `event_handler &` (moving) overload -/")
        w(f"def {lean_name} : Bool := {str(moving(fn, arg)).lower()}")
    # the setter's own copy `h` (two sites: EBADF and select failure)
    hs = [p for f, a, p in sites if f == "io_event_setter::operator()" and a == "h"]
    if len(hs) != 2:
        raise Untranslatable("io_event_setter: expected two completion_handler(h,e) sites")
    w(f"def setterErrorMoves : Bool := {str(all('const' not in p for p in hs)).lower()}")
    # posts copy the caller's callback (the caller keeps its own reference; the loop gets one)
    ps = [p for f, a, p in sites if f == "post"]
    if len(ps) != 3:
        raise Untranslatable("post: expected three overloads constructing a completion_handler")
    w(f"def postCopies : Bool := {str(all('const' in p for p in ps)).lower()}\n")

    # ---- shapes checked on the text (simple statements)
    src = strip_c_comments(io_src)
    setter = function_body(src, r"struct\s+io_event_setter\s*\{")
    body = function_body(setter, r"void\s+operator\(\)\s*\(\s*\)\s*\{")
    m = re.search(r"if\s*\(\s*!e\s*\)\s*\{\s*self_->map_\[fd\]\.current_event\s*=\s*new_event\s*;\s*"
                  r"if\s*\(\s*event\s*==\s*io_events::in\s*\)\s*self_->map_\[fd\]\.readable\s*=\s*h\s*;\s*"
                  r"else\s*self_->map_\[fd\]\.writeable\s*=\s*h\s*;\s*\}\s*else\s*\{\s*"
                  r"self_->dispatch_queue_\.push_back\(completion_handler\(h,e\)\)\s*;\s*\}", body)
    if not m:
        raise Untranslatable("io_event_setter::operator(): the slot assignment no longer has the shape "
                             "`if(!e){ current_event=new_event; if(event==in) readable=h; else writeable=h; } else { queue(h,e) }`")
    if not re.search(r"int\s+new_event\s*=\s*self_->map_\[fd\]\.current_event\s*\|\s*event\s*;", body):
        raise Untranslatable("io_event_setter: new_event computation")
    if not re.search(r"if\s*\(\s*!self_->map_\.is_valid\(fd\)\s*\)", body):
        raise Untranslatable("io_event_setter: is_valid test")
    w("/-- io_event_setter stores the new handler by plain assignment over whatever the slot holds (D12) -/")
    w("def setterAssignsDirectly : Bool := true\n")

    canc = function_body(src, r"struct\s+io_event_canceler\s*\{")
    need = function_body(canc, r"bool\s+cancelation_is_needed_with_data_mutex_locked\s*\(\s*\)\s*\{")
    if not re.search(r"if\s*\(\s*!self_->dispatch_queue_\.empty\(\)\s*\)\s*return\s+true\s*;", need) or \
       not re.search(r"if\s*\(\s*cont\.current_event\s*==\s*0\s*&&\s*!cont\.readable\s*&&\s*!cont\.writeable\s*\)\s*\{\s*self_->map_\.erase\(fd\)\s*;\s*return\s+false\s*;\s*\}\s*return\s+true\s*;", need):
        raise Untranslatable("io_event_canceler::cancelation_is_needed_with_data_mutex_locked: shape")
    cbody = function_body(canc, r"void\s+operator\(\)\s*\(\s*\)\s*const\s*\{")
    if not re.search(r"cont\.current_event\s*=\s*0\s*;", cbody) or \
       not re.search(r"if\s*\(\s*cont\.readable\s*\)\s*self_->dispatch_queue_\.push_back\(completion_handler\(cont\.readable,e\)\)\s*;\s*"
                     r"if\s*\(\s*cont\.writeable\s*\)\s*self_->dispatch_queue_\.push_back\(completion_handler\(cont\.writeable,e\)\)\s*;", cbody) or \
       not re.search(r"e\s*=\s*system::error_code\(aio_error::canceled,aio_error_cat\)\s*;", cbody):
        raise Untranslatable("io_event_canceler::operator(): shape")

    ro = function_body(src, r"bool\s+run_one\s*\(")
    checks = [
        (r"int\s+counter\s*=\s*dispatch_queue_\.size\(\)\s*;", "counter = size"),
        (r"while\s*\(\s*!stop_\s*&&\s*!dispatch_queue_\.empty\(\)\s*&&\s*counter\s*>\s*0\s*\)", "drain loop condition"),
        (r"exec\.swap\(dispatch_queue_\.front\(\)\)\s*;\s*dispatch_queue_\.pop_front\(\)\s*;\s*data_mutex_\.unlock\(\)\s*;", "pop under the lock, run outside"),
        (r"while\s*\(\s*!stop_\s*&&\s*!timer_events_\.empty\(\)\s*&&\s*timer_events_\.begin\(\)->first\s*<=\s*now\s*\)", "timer expiry condition deadline <= now"),
        (r"if\s*\(\s*stop_\s*\)\s*return\s+false\s*;", "stop test"),
        (r"polling_\s*=\s*true\s*;\s*try\s*\{\s*data_mutex_\.unlock\(\)\s*;\s*n\s*=\s*reactor_->poll\(", "polling_ = true before unlock/poll"),
        (r"data_mutex_\.lock\(\)\s*;\s*polling_\s*=\s*false\s*;\s*if\s*\(\s*poll_error\s*&&\s*poll_error\.value\(\)\s*!=\s*EINTR\s*&&\s*dispatch_queue_\.empty\(\)\s*\)", "relock, polling_ = false, poll error test"),
        (r"if\s*\(\s*evs\[i\]\.events\s*&\s*reactor::err\s*\)\s*\{\s*dispatch_error\s*=\s*error_code\(aio_error::select_failed,aio_error_cat\)\s*;\s*new_events\s*=\s*0\s*;\s*\}", "err event"),
        (r"if\s*\(\s*evs\[i\]\.events\s*&\s*reactor::in\s*\)\s*new_events\s*&=\s*~reactor::in\s*;\s*if\s*\(\s*evs\[i\]\.events\s*&\s*reactor::out\s*\)\s*new_events\s*&=\s*~reactor::out\s*;", "in/out events clear the bits"),
        (r"if\s*\(\s*cont\.readable\s*&&\s*\(new_events\s*&\s*reactor::in\)\s*==\s*0\s*\)\s*\{\s*dispatch_queue_\.push_back\(completion_handler\(cont\.readable,dispatch_error\)\)\s*;\s*\}", "readable dispatch"),
        (r"if\s*\(\s*cont\.writeable\s*&&\s*\(new_events\s*&\s*reactor::out\)\s*==\s*0\s*\)\s*\{\s*dispatch_queue_\.push_back\(completion_handler\(cont\.writeable,dispatch_error\)\)\s*;\s*\}", "writeable dispatch"),
        (r"completion_handler\s+disp\(evptr->second\.h,system::error_code\(\)\)\s*;\s*dispatch_queue_\.push_back\(disp\)\s*;\s*timer_events_\.erase\(evptr\)\s*;", "expired timer queued with success and erased"),
    ]
    for rx, what in checks:
        if not re.search(rx, ro):
            raise Untranslatable("run_one: " + what)
    ct = function_body(src, r"void\s+cancel_timer_event\s*\(\s*int\s+event_id\s*\)\s*\{")
    if not re.search(r"if\s*\(\s*timer_events_index_\.at\(event_id\)\s*==\s*timer_events_\.end\(\)\s*\)\s*return\s*;", ct) or \
       not re.search(r"completion_handler\s+evdisp\(evptr->second\.h,system::error_code\(aio_error::canceled,aio_error_cat\)\)\s*;\s*"
                     r"dispatch_queue_\.push_back\(evdisp\)\s*;\s*timer_events_\.erase\(evptr\)\s*;\s*timer_events_index_\[event_id\]\s*=\s*timer_events_\.end\(\)\s*;", ct):
        raise Untranslatable("cancel_timer_event: shape")
    se = function_body(src, r"void\s+set_event\s*\(\s*Functor\s*&\s*f\s*\)\s*\{")
    se2 = function_body(src, r"void\s+set_event\s*\(\s*io_event_canceler\s*&\s*f\s*\)\s*\{")
    for b in (se, se2):
        if not re.search(r"if\s*\(\s*polling_\s*\|\|\s*!reactor_\.get\(\)\s*\)\s*\{\s*dispatch_queue_\.push_back\(completion_handler\(f\)\)\s*;\s*if\s*\(\s*reactor_\.get\(\)\s*\)\s*wake\(\)\s*;\s*\}\s*else\s*\{\s*f\(\)\s*;\s*\}", b):
            raise Untranslatable("set_event: queued-when-polling / direct shape")
    if not re.search(r"if\s*\(\s*!f\.cancelation_is_needed_with_data_mutex_locked\(\)\s*\)\s*return\s*;", se2):
        raise Untranslatable("set_event(io_event_canceler&): cancelation_is_needed test")
    for nm in ("post",):
        for mm in re.finditer(r"void\s+post\s*\(([^)]*)\)\s*\{(.*?)\n\t\}", src, re.S):
            if not re.search(r"dispatch_queue_\.push_back\(completion_handler\(h[^;]*\)\)\s*;\s*if\s*\(\s*polling_\s*\)\s*wake\(\)\s*;", mm.group(2)):
                raise Untranslatable("post: push_back + wake-if-polling shape")
    st = function_body(src, r"void\s+stop\s*\(\s*\)\s*\{")
    if not re.search(r"stop_\s*=\s*true\s*;\s*if\s*\(\s*polling_\s*\)\s*wake\(\)\s*;", st):
        raise Untranslatable("stop: shape")
    rs = function_body(src, r"void\s+reset\s*\(\s*\)\s*\{")
    if not re.fullmatch(r"\s*dispatch_queue_\.clear\(\)\s*;\s*map_\.clear\(\)\s*;\s*stop_\s*=\s*false\s*;\s*reactor_\.reset\(\)\s*;\s*interrupter_\.close\(\)\s*;\s*", rs):
        raise Untranslatable("reset: shape")
    w("/-- shapes of run_one / cancel_timer_event / set_event / post / stop / reset / canceler verified on the text -/")
    w("def loopShapesChecked : Bool := true\n")

    # ------------------------------------------------------------------ thread pool
    objs = [x for x in clang_ast(tp_path, incs, "cppcms::impl::thread_pool") if x.get("kind") == "CXXRecordDecl" and x.get("inner")]
    objs = [x for x in objs if any(c.get("kind") == "CXXMethodDecl" for c in x.get("inner", []))]
    if len(objs) != 1:
        raise Untranslatable(f"expected one definition of impl::thread_pool, found {len(objs)}")
    pm = []
    methods(objs[0], "", pm, ["unique_lock"], "mutex_", POOL_STATE)
    pn = [m[0] for m in pm]
    for need in ("cancel(", "post(", "stop(", "worker("):
        if not any(n.startswith(need) for n in pn):
            raise Untranslatable("thread_pool: method not found: " + need)
    w("def poolLockTable : List (String × Bool × Bool) := [")
    w(",\n".join(f"  ({lean_str(n)}, {str(l).lower()}, {str(t).lower()})" for n, l, t, _, _ in pm))
    w("]\n")
    tsrc = strip_c_comments(tp_src)
    wk = function_body(tsrc, r"void\s+worker\s*\(\s*\)\s*\{")
    m = re.search(r"for\s*\(\s*;\s*;\s*\)\s*\{\s*booster::function<void\(\)>\s+job\s*;\s*\{\s*"
                  r"booster::unique_lock<booster::mutex>\s+lock\(mutex_\)\s*;\s*"
                  r"if\s*\(\s*shut_down_\s*\)\s*return\s*;\s*"
                  r"if\s*\(\s*!queue_\.empty\(\)\s*\)\s*\{\s*(.*?)\}\s*else\s*\{\s*cond_\.wait\(lock\)\s*;\s*\}\s*\}\s*"
                  r"if\s*\(\s*job\s*\)\s*\{\s*try\s*\{\s*job\(\)\s*;\s*\}(.*)\}\s*\}\s*$", wk.strip(), re.S)
    if not m:
        raise Untranslatable("thread_pool::worker: loop shape (lock; shutdown test; pop; wait; run outside lock in try)")
    pop, catches = m.group(1), m.group(2)
    by_swap = bool(re.fullmatch(r"\s*queue_\.front\(\)\.second\.swap\(job\)\s*;\s*queue_\.pop_front\(\)\s*;\s*", pop))
    by_copy_pop = bool(re.fullmatch(r"\s*job\s*=\s*queue_\.front\(\)\.second\s*;\s*queue_\.pop_front\(\)\s*;\s*", pop))
    if not (by_swap or by_copy_pop):
        # a pop that leaves the entry in the queue, or anything else, is emitted as "does not remove"
        if re.search(r"pop_front", pop):
            raise Untranslatable("thread_pool::worker: unrecognised pop statement: " + pop.strip())
    removes = by_swap or by_copy_pop
    catch_all = bool(re.search(r"catch\s*\(\s*\.\.\.\s*\)\s*\{", catches))
    rethrows = bool(re.search(r"\bthrow\s*;", catches)) or bool(re.search(r"\breturn\s*;", catches)) or "abort" in catches or "exit" in catches
    w(f"def workerRemovesJobUnderLock : Bool := {str(removes).lower()}")
    w(f"def workerCatchesAll : Bool := {str(catch_all and not rethrows).lower()}")
    cn = function_body(tsrc, r"bool\s+cancel\s*\(\s*int\s+id\s*\)\s*\{")
    if not re.search(r"for\s*\(\s*p\s*=\s*queue_\.begin\(\)\s*;\s*p\s*!=\s*queue_\.end\(\)\s*;\s*\+\+p\s*\)\s*\{\s*if\s*\(\s*p->first\s*==\s*id\s*\)\s*\{\s*queue_\.erase\(p\)\s*;\s*return\s+true\s*;\s*\}\s*\}\s*return\s+false\s*;", cn):
        raise Untranslatable("thread_pool::cancel: shape")
    po = function_body(tsrc, r"int\s+post\s*\(\s*booster::function<void\(\)>\s*const\s*&\s*job\s*\)\s*\{")
    if not re.search(r"int\s+id\s*=\s*job_id_\+\+\s*;\s*queue_\.push_back\(std::make_pair\(id,job\)\)\s*;\s*cond_\.notify_one\(\)\s*;\s*return\s+id\s*;", po):
        raise Untranslatable("thread_pool::post: shape")
    sp = function_body(tsrc, r"void\s+stop\s*\(\s*\)\s*\{")
    if not re.search(r"shut_down_\s*=\s*true\s*;\s*cond_\.notify_all\(\)\s*;", sp):
        raise Untranslatable("thread_pool::stop: shape")
    w("def poolShapesChecked : Bool := true\n")
    reactor_tables(repo, w)
    epoll_cache_shape(repo, w)
    device_tables(repo, w)
    functor_tables(repo, w)
    w("end Cppcms.C17.Gen")
    path = os.path.join(lean, "Cppcms", "C17", "Gen.lean")
    write_if_changed(path, "\n".join(o) + "\n")
    print(path)


if __name__ == "__main__":
    try:
        main(*sys.argv[1:4])
    except Untranslatable as e:
        print("UNTRANSLATABLE: " + str(e))
        sys.exit(2)
