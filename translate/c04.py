#!/usr/bin/env python3
"""C04 extractor: src/xss.cpp + private/c_string.h -> Cppcms/C04/Gen.lean

Regenerated on every run of the C04 check.  Extracted (mechanically, via cexpr.py):
  * ascii_isalpha/isdigit/isalnum/isxdigit/isspace/tolower byte classes (xss.cpp) and
    c_string::tolower (c_string.h; must agree with ascii_tolower, checked in Lean)
  * the entities every rules_holder starts with (constructor add_entity calls)
  * the fixed entity set of validate_property_value (ends_with chain, in order)
  * the numeric-entity rejection condition of parse_html_entity (code point ranges)
  * the escape table of validate_and_filter_if_invalid (switch in the output loop)
  * the tokenizer's special bytes, the comment opener / look-ahead / forbidden bytes,
    the token terminators (';' '>') of split_to_parts
  * integer_property_functor's sign and digit range
Shape checks (exit 2 when the control flow the hand-written Model.lean transcribes
is no longer recognisable): the nesting loop, the pair invalidation loop, the
tag-kind switch.
"""
import sys, re, os
sys.path.insert(0, os.path.dirname(os.path.abspath(__file__)))
from cexpr import *


def need(cond, what):
    if not cond:
        raise Untranslatable(what)


def ret_expr(src, sig, what):
    body = function_body(src, sig)
    m = re.fullmatch(r"\s*return\s+([^;]+);\s*", body)
    need(m, what + ": expected a single return")
    return m.group(1)


SKELETON_FILE = os.path.join(os.path.dirname(os.path.abspath(__file__)), "c04_skeleton.json")
# every function / class of src/xss.cpp that Model.lean or Uri.lean transcribes by hand
SKELETON_UNITS = [
    ("integer_property_functor", r"bool\s+integer_property_functor\s*\("),
    ("rules_holder::add_tag", r"void\s+add_tag\s*\(std::string\s+const\s*&name,rules::tag_type\s+type\)\s*\{"),
    ("rules_holder::add_property", r"void\s+add_property\s*\(std::string\s+const\s*&tname,std::string\s+const\s*&pname,validator_type\s+const\s*&r\)\s*\{"),
    ("rules_holder::valid_tag", r"rules::tag_type\s+valid_tag\s*\(c_string\s+const\s*&t\)\s*const\s*\{"),
    ("rules_holder::valid_boolean_property", r"bool\s+valid_boolean_property\s*\(c_string\s+const\s*&tname,c_string\s+const\s*&pname\)\s*const\s*\{"),
    ("rules_holder::valid_property", r"bool\s+valid_property\s*\(c_string\s+const\s*&tname,c_string\s+const\s*&pname,c_string\s+const\s*&value\)\s*const\s*\{"),
    ("basic_rules_holder::valid_entity", r"bool\s+valid_entity\s*\(c_string\s+const\s*&name\)\s*const\s*\{"),
    ("rules::impl", r"basic_rules_holder\s+const\s*&rules::impl\(\)\s*const\s*\{"),
    ("ascii_streq", r"bool\s+ascii_streq\s*\("),
    ("ends_with", r"bool\s+ends_with\s*\("),
    ("validate_property_value", r"bool\s+validate_property_value\s*\("),
    ("parse_properties", r"void\s+parse_properties\s*\("),
    ("parse_html_entity", r"void\s+parse_html_entity\s*\("),
    ("parse_html_tag", r"void\s+parse_html_tag\s*\("),
    ("parse_part", r"void\s+parse_part\s*\("),
    ("split_to_parts", r"void\s+split_to_parts\s*\("),
    ("validate_nesting", r"void\s+validate_nesting\s*\("),
    ("validate_entry_by_rules", r"bool\s+validate_entry_by_rules\s*\("),
    ("validate", r"bool\s+validate\s*\(char\s+const\s*\*begin,char\s+const\s*\*end,rules\s+const\s*&r\)\s*\{"),
    ("validate_and_filter_if_invalid", r"bool\s+validate_and_filter_if_invalid\s*\("),
    ("filter(begin,end)", r"std::string\s+filter\s*\(\s*char\s+const\s*\*begin,"),
    ("filter(string)", r"std::string\s+filter\s*\(\s*std::string\s+const\s*&input,"),
    ("class uri_parser", r"class\s+uri_parser\s*\{"),
    ("struct uri_validator_functor", r"struct\s+uri_validator_functor\s*\{"),
    ("rules::uri_validator(scheme,absolute_only)", r"rules::validator_type\s+rules::uri_validator\(std::string\s+const\s*&scheme,bool\s+absolute_only\s*\)\s*\{"),
    ("rules::relative_uri_validator", r"rules::validator_type\s+rules::relative_uri_validator\(\)\s*\{"),
]


def skeleton_of(text):
    """control skeleton: data constants (string / character literals, hexadecimal numbers) are masked - they reach the proofs
    through Gen.lean -, everything else (identifiers, operators, decimal offsets, structure) is kept, white space normalised"""
    import hashlib
    t = re.sub(r'"(?:\\.|[^"\\])*"|\'(?:\\.|[^\'\\])\'', lambda m: "S" if m.group(0)[0] == '"' else "C", text)
    t = re.sub(r"\b0[xX][0-9a-fA-F]+\b", "H", t)
    toks = re.findall(r"[A-Za-z_]\w*|\d+|\S", t)
    return hashlib.sha256(" ".join(toks).encode()).hexdigest()[:20]


def check_skeletons(xss, update):
    import json
    cur = {}
    for name, sig in SKELETON_UNITS:
        cur[name] = skeleton_of(function_body(xss, sig))
    if update:
        json.dump(cur, open(SKELETON_FILE, "w"), indent=1, sort_keys=True)
        return
    need(os.path.exists(SKELETON_FILE), "translate/c04_skeleton.json is missing")
    exp = json.load(open(SKELETON_FILE))
    return [n for n, _ in SKELETON_UNITS if exp.get(n) != cur[n]]


def main(repo, lean):
    xss = strip_c_comments(open(os.path.join(repo, "src/xss.cpp")).read())
    cstr = strip_c_comments(open(os.path.join(repo, "private/c_string.h")).read())
    skeleton_changed = check_skeletons(xss, "--update-skeleton" in sys.argv) or []
    o = []
    w = o.append
    w("/- GENERATED by translate/c04.py from src/xss.cpp and private/c_string.h. Do not edit. -/")
    w("set_option linter.unusedVariables false\nnamespace Cppcms.C04.Gen\n")

    # ---- byte classes
    funcs = {}
    for cname, lname in (("ascii_isalpha", "isAlpha"), ("ascii_isdigit", "isDigit"),
                         ("ascii_isalnum", "isAlnum"), ("ascii_isxdigit", "isXdigit"),
                         ("ascii_isspace", "isSpace")):
        e = ret_expr(xss, r"bool\s+" + cname + r"\s*\(\s*char\s+c\s*\)\s*\{", cname)
        w(f"/-- `{cname}` of xss.cpp (bytes >= 128 are negative `char`s: every range test is false, as over Nat) -/")
        w(f"def {lname} (c : Nat) : Bool := {c_to_lean(e, funcs=funcs)}")
        funcs[cname] = lname
    body = function_body(xss, r"char\s+ascii_tolower\s*\(\s*char\s+c\s*\)\s*\{")
    m = re.fullmatch(r"\s*if\s*\(([^;{}]*)\)\s*return\s+([^;]+);\s*return\s+c\s*;\s*", body)
    need(m, "ascii_tolower shape")
    w(f"def toLower (c : Nat) : Nat := if {c_to_lean(m.group(1))} then {c_to_lean(m.group(2))} else c")
    body = function_body(cstr, r"static\s+char\s+tolower\s*\(\s*char\s+c\s*\)\s*\{")
    m = re.fullmatch(r"\s*if\s*\(([^;{}]*)\)\s*return\s+([^;]+);\s*return\s+c\s*;\s*", body)
    need(m, "c_string::tolower shape")
    w("/-- `c_string::tolower` (used by icompare: tag / attribute lookup in HTML mode) -/")
    w(f"def cstrToLower (c : Nat) : Nat := if {c_to_lean(m.group(1))} then {c_to_lean(m.group(2))} else c")
    need(re.search(r"lexicographical_compare\(begin_,end_,other\.begin_,other\.end_,std::char_traits<char>::lt\)", cstr),
         "c_string::compare is no longer a plain lexicographic byte comparison")
    need(re.search(r"lexicographical_compare\(begin_,end_,other\.begin_,other\.end_,ilt\)", cstr) and
         re.search(r"unsigned\s+char\s+l\s*=\s*tolower\(left\);\s*unsigned\s+char\s+r\s*=\s*tolower\(right\);\s*return\s+l\s*<\s*r\s*;", cstr),
         "c_string::icompare is no longer a lexicographic comparison of tolower'd bytes")
    w("")

    # ---- ascii_streq: length test, then bytewise (xhtml) or tolower'd (html)
    body = function_body(xss, r"bool\s+ascii_streq\s*\(")
    need(re.search(r"if\s*\(\s*el\s*-\s*bl\s*!=\s*er\s*-\s*br\s*\)\s*return\s+false\s*;", body) and
         re.search(r"if\s*\(\s*xhtml\s*\)\s*\{\s*for\s*\(;bl!=el;bl\+\+,br\+\+\)\s*if\s*\(\s*\*bl\s*!=\s*\*br\s*\)\s*return\s+false\s*;\s*\}", body) and
         re.search(r"else\s*\{\s*for\s*\(;bl!=el;bl\+\+,br\+\+\)\s*if\s*\(\s*ascii_tolower\(\*bl\)\s*!=\s*ascii_tolower\(\*br\)\s*\)\s*return\s+false\s*;\s*\}", body),
         "ascii_streq shape")

    # ---- default entities
    body = function_body(xss, r"(?<![\w~])rules_holder\s*\(\s*\)\s*\{")
    ents = re.findall(r"add_entity\(\s*\"((?:\\.|[^\"\\])*)\"\s*\)\s*;", body)
    need(ents and re.fullmatch(r"(\s*add_entity\(\s*\"(?:\\.|[^\"\\])*\"\s*\)\s*;)+\s*", body), "rules_holder constructor shape")
    w("/-- entities every `rules` object starts with (constructor of rules_holder) -/")
    w("def defaultEntities : List (List Nat) := [" + ", ".join(lean_bytes(c_string_bytes(e)) for e in ents) + "]\n")
    need(re.search(r"typedef\s+std::set<details::c_string,compare_c_string>\s+entities_type\s*;", xss),
         "entities are no longer compared case-sensitively in both holders")

    # ---- validate_property_value
    body = function_body(xss, r"bool\s+validate_property_value\s*\(")
    m = re.search(r"switch\s*\(c\)\s*\{\s*((?:case\s+'(?:\\.|[^'\\])'\s*:\s*)+)return\s+false\s*;\s*case\s+('(?:\\.|[^'\\])')\s*:\s*begin\+\+\s*;\s*if\s*\((.*?)\)\s*\{\s*break\s*;\s*\}\s*else\s*\{\s*return\s+false\s*;\s*\}\s*default\s*:\s*begin\+\+\s*;", body, re.S)
    need(m, "validate_property_value shape")
    bad = [char_val(x) for x in re.findall(r"'(?:\\.|[^'\\])'", m.group(1))]
    amp = char_val(m.group(2))
    chain = re.findall(r"ends_with\(begin,end,\"((?:\\.|[^\"\\])*)\"\)", m.group(3))
    need(chain and re.fullmatch(r"\s*ends_with\(begin,end,\"(?:\\.|[^\"\\])*\"\)(\s*\|\|\s*ends_with\(begin,end,\"(?:\\.|[^\"\\])*\"\))*\s*", m.group(3)),
         "validate_property_value: ends_with chain")
    w("/-- bytes that make an attribute value invalid outright -/")
    w("def propValueForbidden : List Nat := " + lean_bytes(bad))
    w(f"def propValueAmp : Nat := {amp}")
    w("/-- what may follow `&` inside an attribute value (ends_with chain, in order) -/")
    w("def propValueEntities : List (List Nat) := [" + ", ".join(lean_bytes(c_string_bytes(e)) for e in chain) + "]\n")
    body = function_body(xss, r"bool\s+ends_with\s*\(")
    need(re.search(r"if\s*\(\s*begin\s*>=\s*end\s*\|\|\s*size_t\(end\s*-\s*begin\)\s*<\s*len\s*\)\s*return\s+false\s*;\s*if\s*\(\s*memcmp\(begin,value,len\)\s*==\s*0\s*\)\s*\{\s*begin\s*\+=\s*len\s*;\s*return\s+true\s*;", body),
         "ends_with shape (prefix test that advances begin)")

    # ---- parse_html_entity: numeric ranges
    body = function_body(xss, r"void\s+parse_html_entity\s*\(")
    m = re.search(r"if\s*\(\s*!endptr\s*\|\|\s*\*endptr\s*!=\s*';'\s*\|\|(.*?)\)\s*\{\s*part\.type\s*=\s*invalid_data\s*;\s*return\s*;\s*\}", body, re.S)
    need(m, "parse_html_entity: code point condition")
    w("/-- `parse_html_entity`: the code point is rejected (after `!endptr || *endptr!=';'`, which cannot hold:")
    w("    all bytes up to the `;` were checked to be digits) -/")
    w(f"def numericRejected (code_point : Nat) : Bool := {c_to_lean(m.group(1))}")
    need(re.search(r"if\s*\(\s*\*begin\s*==\s*'#'\s*\)", body), "parse_html_entity: '#'")
    mm = re.search(r"if\s*\(\s*\*begin\s*==\s*('(?:\\.|[^'\\])')\s*\|\|\s*\*begin\s*==\s*('(?:\\.|[^'\\])')\s*\)\s*\{\s*begin\+\+\s*;", body)
    need(mm and re.search(r"strtol\(begin,&endptr,16\)", body) and re.search(r"strtol\(begin,&endptr,10\)", body), "parse_html_entity: hex/dec")
    w(f"def numericHexMarks : List Nat := [{char_val(mm.group(1))}, {char_val(mm.group(2))}]")
    need(re.search(r"if\s*\(\s*!ascii_isxdigit\(\*p\)\s*\)", body) and re.search(r"if\s*\(\s*!ascii_isdigit\(\*p\)\s*\)", body)
         and re.search(r"if\s*\(\s*!ascii_isalnum\(\*p\)\s*\)", body), "parse_html_entity: digit checks")
    w("")

    # ---- escape table
    body = function_body(xss, r"bool\s+validate_and_filter_if_invalid\s*\(")
    m = re.search(r"if\s*\(\s*method\s*==\s*remove_invalid\s*\)\s*continue\s*;\s*for\s*\(char\s+const\s*\*p=b;p!=e;p\+\+\)\s*\{\s*char\s+c=\*p;\s*switch\s*\(c\)\s*\{(.*?)default\s*:\s*filtered\s*\+=\s*c\s*;\s*\}", body, re.S)
    need(m, "validate_and_filter_if_invalid: output loop")
    cases = re.findall(r"case\s+('(?:\\.|[^'\\])')\s*:\s*filtered\s*\+=\s*\"((?:\\.|[^\"\\])*)\"\s*;\s*break\s*;", m.group(1))
    need(cases and len(cases) == len(re.findall(r"\bcase\b", m.group(1))), "escape switch: unparsed case")
    w("/-- escape_invalid: (byte, replacement) -/")
    w("def escapeTable : List (Nat × List Nat) := [" + ", ".join(f"({char_val(c)}, {lean_bytes(c_string_bytes(s))})" for c, s in cases) + "]\n")
    # pair invalidation loop
    need(re.search(r"if\s*\(\s*!validate_entry_by_rules\(parsed\[i\],r\)\s*\)\s*\{\s*valid\s*=\s*false\s*;\s*int\s+pair\s*=\s*parsed\[i\]\.tag\.pair\s*;\s*if\s*\(\s*pair\s*!=\s*-1\s*\)\s*parsed\[pair\]\.type\s*=\s*invalid_data\s*;\s*parsed\[i\]\.type\s*=\s*invalid_data\s*;\s*\}", body),
         "validate_and_filter_if_invalid: pair invalidation loop")
    need(re.search(r"if\s*\(\s*valid\s*\)\s*return\s+true\s*;", body), "validate_and_filter_if_invalid: early return on valid")

    # ---- split_to_parts
    body = function_body(xss, r"void\s+split_to_parts\s*\(")
    m = re.search(r"switch\s*\(c\)\s*\{\s*case\s+('(?:\\.|[^'\\])')\s*:(.*?)break\s*;\s*case\s+('(?:\\.|[^'\\])')\s*:(.*?)break\s*;\s*case\s+('(?:\\.|[^'\\])')\s*:(.*?)break\s*;\s*default\s*:(.*)\}\s*\}\s*$", body, re.S)
    need(m, "split_to_parts: switch shape")
    amp_c, amp_b, lt_c, lt_b, gt_c, gt_b, dflt = m.groups()
    mm = re.search(r"if\s*\(\s*\*e\s*==\s*('(?:\\.|[^'\\])')\s*\)\s*break\s*;", amp_b)
    need(mm and re.search(r"tags\.push_back\(entry\(p,end,invalid_data\)\)", amp_b) and re.search(r"tags\.push_back\(entry\(p,e\+1,html_entity\)\)", amp_b), "split_to_parts: '&' branch")
    w(f"def tokAmp : Nat := {char_val(amp_c)}")
    w(f"def tokEntityEnd : Nat := {char_val(mm.group(1))}")
    w(f"def tokLt : Nat := {char_val(lt_c)}")
    w(f"def tokGt : Nat := {char_val(gt_c)}")
    mm = re.search(r"if\s*\(\s*p\s*\+\s*(\d+)\s*<\s*end\s*&&\s*p\[1\]\s*==\s*('(?:\\.|[^'\\])')\s*&&\s*p\[2\]\s*==\s*('(?:\\.|[^'\\])')\s*&&\s*p\[3\]\s*==\s*('(?:\\.|[^'\\])')\s*\)\s*\{\s*char\s+const\s*\*e\s*=\s*p\s*\+\s*(\d+)\s*;", lt_b)
    need(mm, "split_to_parts: comment opener")
    w(f"/-- `p+N < end` look-ahead and where the body scan starts -/\ndef commentLookahead : Nat := {mm.group(1)}")
    w(f"def commentOpen : List Nat := [{char_val(mm.group(2))}, {char_val(mm.group(3))}, {char_val(mm.group(4))}]")
    w(f"def commentBodyStart : Nat := {mm.group(5)}")
    mm = re.search(r"while\s*\(\s*e\s*<\s*end\s*-\s*1\s*\)\s*\{\s*if\s*\(\s*e\[0\]\s*==\s*('(?:\\.|[^'\\])')\s*&&\s*e\[1\]\s*==\s*('(?:\\.|[^'\\])')\s*\)\s*break\s*;\s*e\+\+\s*;\s*\}\s*if\s*\(\s*e\s*\+\s*2\s*<\s*end\s*&&\s*e\[2\]\s*==\s*('(?:\\.|[^'\\])')\s*\)", lt_b)
    need(mm, "split_to_parts: comment terminator scan")
    w(f"def commentClose : List Nat := [{char_val(mm.group(1))}, {char_val(mm.group(2))}, {char_val(mm.group(3))}]")
    mm = re.search(r"for\s*\(char\s+const\s*\*tmp\s*=\s*p\+4;tmp<e;tmp\+\+\)\s*\{\s*char\s+c=\*tmp;\s*if\s*\(([^{}]*?)\)\s*\{\s*type\s*=\s*invalid_data\s*;\s*break\s*;\s*\}\s*\}\s*tags\.push_back\(entry\(p,e\+3,type\)\)\s*;\s*p\s*=\s*e\+3\s*;", lt_b)
    need(mm, "split_to_parts: comment body check")
    w(f"def commentForbidden (c : Nat) : Bool := {c_to_lean(mm.group(1))}")
    mm = re.search(r"else\s*\{\s*char\s+const\s*\*e=0;\s*for\s*\(e=p\+1;e!=end;e\+\+\)\s*\{\s*if\s*\(\s*\*e\s*==\s*('(?:\\.|[^'\\])')\s*\)\s*break\s*;\s*\}\s*if\s*\(e==end\)\s*\{\s*tags\.push_back\(entry\(p,end,invalid_data\)\);\s*p=end;\s*\}\s*else\s*\{\s*tags\.push_back\(entry\(p,e\+1,html_tag\)\);\s*p=e\+1;", lt_b)
    need(mm, "split_to_parts: tag branch")
    w(f"def tokTagEnd : Nat := {char_val(mm.group(1))}")
    need(re.search(r"tags\.push_back\(entry\(p,p\+1,invalid_data\)\);\s*p\+\+;", gt_b), "split_to_parts: '>' branch")
    mm = re.search(r"for\s*\(e=p\+1;e!=end;e\+\+\)\s*\{\s*char\s+c=\*e;\s*if\s*\(([^{}]*?)\)\s*break\s*;\s*\}\s*tags\.push_back\(entry\(p,e,plain_text\)\);\s*p=e;", dflt)
    need(mm, "split_to_parts: plain run")
    w(f"/-- a plain run stops in front of these -/\ndef isSpecial (c : Nat) : Bool := {c_to_lean(mm.group(1))}\n")

    # ---- parse_html_tag / parse_properties constants
    body = function_body(xss, r"void\s+parse_html_tag\s*\(")
    mm = re.search(r"if\s*\(\s*\*begin\s*==\s*('(?:\\.|[^'\\])')\s*\)\s*\{\s*begin\+\+\s*;\s*if\s*\(\s*!ascii_isalpha\(\*begin\)\s*\)", body)
    m2 = re.search(r"if\s*\(\s*\*\(end-1\)\s*==\s*('(?:\\.|[^'\\])')\s*\)\s*\{\s*part\.type\s*=\s*open_and_close_tag\s*;\s*end--\s*;\s*\}\s*else\s*\{\s*part\.type\s*=\s*open_tag\s*;\s*\}\s*parse_properties\(part,begin,end\)", body)
    need(mm and m2 and re.search(r"while\s*\(\s*ascii_isspace\(\*begin\)\s*\)\s*begin\+\+\s*;\s*if\s*\(\s*begin\s*!=\s*end\s*\)", body), "parse_html_tag shape")
    w(f"def tagSlash : Nat := {char_val(mm.group(1))}")
    w(f"def tagSelfClose : Nat := {char_val(m2.group(1))}")
    body = function_body(xss, r"void\s+parse_properties\s*\(")
    mm = re.search(r"if\s*\(\s*\*begin\+\+\s*!=\s*('(?:\\.|[^'\\])')\s*\)", body)
    m2 = re.search(r"char\s+quote\s*=\s*\*begin\s*;\s*if\s*\(\s*quote\s*!=\s*('(?:\\.|[^'\\])')\s*&&\s*quote\s*!=\s*('(?:\\.|[^'\\])')\s*\)", body)
    need(mm and m2 and re.search(r"bool\s+space_found\s*=\s*true\s*;", body) and re.search(r"space_found\s*=\s*false\s*;", body)
         and re.search(r"else\s+if\s*\(\s*!space_found\s*\)", body) and re.search(r"while\s*\(\s*ascii_isalnum\(\*nb\)\s*\)\s*nb\+\+\s*;", body)
         and re.search(r"if\s*\(\s*ascii_isspace\(\*begin\)\s*\)\s*\{\s*begin\+\+\s*;\s*continue\s*;\s*\}", body)
         and re.search(r"if\s*\(\s*!validate_property_value\(begin,vbegin\)\s*\)", body), "parse_properties shape")
    w(f"def propEq : Nat := {char_val(mm.group(1))}")
    w(f"def propQuotes : List Nat := [{char_val(m2.group(1))}, {char_val(m2.group(2))}]\n")

    # ---- uri_validator_functor: the three cases (Uri.lean's `validator` is hand-written)
    m = re.search(r"struct\s+uri_validator_functor\s*\{(.*?)\n\t\};", xss, re.S)
    need(m, "uri_validator_functor")
    uvf = m.group(1)
    need(re.search(r"case\s+both\s*:\s*if\s*\(\s*!parser\.parse\(\)\s*\)\s*return\s+false\s*;\s*if\s*\(\s*parser\.has_scheme\(\)\s*\)\s*\{.*?return\s+booster::regex_match\(parser\.scheme_begin\(\),parser\.scheme_end\(\),scheme_\)\s*;\s*\}\s*return\s+true\s*;", uvf, re.S)
         and re.search(r"case\s+relative\s*:\s*if\s*\(\s*!parser\.parse\(\)\s*\)\s*return\s+false\s*;\s*if\s*\(\s*parser\.has_scheme\(\)\s*\)\s*return\s+false\s*;\s*return\s+true\s*;", uvf)
         and re.search(r"case\s+full\s*:\s*if\s*\(\s*!parser\.parse_full\(\)\s*\)\s*return\s+false\s*;\s*if\s*\(\s*!parser\.has_scheme\(\)\s*\)\s*return\s+false\s*;\s*return\s+booster::regex_match\(parser\.scheme_begin\(\),parser\.scheme_end\(\),scheme_\)\s*;", uvf),
         "uri_validator_functor: the both/relative/full cases no longer have the shape Uri.lean transcribes")

    # ---- uri_parser: character classes and small conditions (Uri.lean takes them from here)
    m = re.search(r"class\s+uri_parser\s*\{(.*?)\n\t\};\s*//\s*uri_parser|class\s+uri_parser\s*\{(.*?)\n\t\};", xss, re.S)
    need(m, "class uri_parser")
    up = m.group(1) or m.group(2)
    for cname, lname in (("is_digit", "uriIsDigit"), ("is_alapha", "uriIsAlpha"), ("is_hex", "uriIsHex")):
        mm = re.search(r"static\s+bool\s+" + cname + r"\s*\(\s*char\s+c\s*\)\s*\{\s*return\s+([^;]+);\s*\}", up)
        need(mm, "uri_parser::" + cname)
        w(f"/-- `uri_parser::{cname}` -/")
        w(f"def {lname} (c : Nat) : Bool := " + c_to_lean(mm.group(1), funcs={"is_digit": "uriIsDigit", "is_alapha": "uriIsAlpha"}))
    body = function_body(up, r"bool\s+unreserved\s*\(\s*\)\s*\{")
    mm = re.search(r"char\s+c=\*begin_;\s*if\s*\((.*?)\)\s*\{\s*begin_\+\+;\s*return\s+true;\s*\}\s*return\s+false;", body, re.S)
    need(mm, "uri_parser::unreserved")
    w("def uriUnreserved (c : Nat) : Bool := " + c_to_lean(mm.group(1), funcs={"is_digit": "uriIsDigit", "is_alapha": "uriIsAlpha"}))
    body = function_body(up, r"bool\s+sub_delims\s*\(\s*\)\s*\{")
    mm = re.search(r"if\s*\(\s*follows\(\"((?:\\.|[^\"\\])*)\"\)\s*\|\|\s*follows\(\"((?:\\.|[^\"\\])*)\"\)\s*\)\s*return\s+true;\s*switch\s*\(\*begin_\)\s*\{((?:\s*case\s+'(?:\\.|[^'\\])'\s*:)+)\s*begin_\s*\+\+;\s*return\s+true;\s*\}\s*return\s+false;", body)
    need(mm, "uri_parser::sub_delims")
    w("def uriRefs : List (List Nat) := [" + lean_bytes(c_string_bytes(mm.group(1))) + ", " + lean_bytes(c_string_bytes(mm.group(2))) + "]")
    w("def uriSubDelims : List Nat := " + lean_bytes([char_val(x) for x in re.findall(r"'(?:\\.|[^'\\])'", mm.group(3))]))
    body = function_body(up, r"bool\s+scheme\s*\(\s*\)\s*\{")
    mm = re.search(r"if\s*\(\s*begin_==end_\s*\|\|\s*!is_alapha\(\*begin_\)\s*\)\s*return\s+false;.*?while\s*\(\s*begin_!=end_\s*&&\s*\((.*?)\)\)\s*begin_\+\+;", body, re.S)
    need(mm, "uri_parser::scheme")
    w("def uriSchemeChar (c : Nat) : Bool := " + c_to_lean(mm.group(1).replace("(c=*begin_)", "c"), funcs={"is_digit": "uriIsDigit", "is_alapha": "uriIsAlpha"}))
    body = function_body(up, r"bool\s+pct_encoded\s*\(\s*\)\s*\{")
    mm = re.search(r"if\s*\(\s*end_\s*-\s*begin_\s*>=\s*3\s*&&\s*begin_\[0\]\s*==\s*('(?:\\.|[^'\\])')\s*&&\s*is_hex\(begin_\[1\]\)\s*&&\s*is_hex\(begin_\[2\]\)\s*\)\s*\{\s*begin_\+=3;", body)
    need(mm, "uri_parser::pct_encoded")
    w(f"def uriPct : Nat := {char_val(mm.group(1))}")
    body = function_body(up, r"bool\s+dec_octet\s*\(\s*\)\s*\{")
    mm = re.search(r"while\s*\(\s*begin_!=end_\s*&&\s*is_digit\(\(c=\*begin_\)\)\s*&&\s*count<(\d+)\s*\)\s*\{\s*count\s*\+\+;\s*value\s*=\s*([^;]+);\s*\}\s*if\s*\(([^)]*)\)\s*return\s+false;\s*if\s*\(([^)]*)\)\s*return\s+false;\s*if\s*\(([^)]*)\)\s*return\s+false;\s*if\s*\(([^)]*)\)\s*return\s+false;\s*sp\.commit\(\);", body)
    need(mm, "uri_parser::dec_octet (incl. the loop that does not advance begin_)")
    w(f"def uriDecOctetMax : Nat := {mm.group(1)}")
    w("def uriDecOctetStep (value c : Nat) : Nat := " + c_to_lean(mm.group(2)))
    w("def uriDecOctetReject (value count : Nat) : Bool := " + " || ".join("(" + c_to_lean(mm.group(k)) + ")" for k in (3, 4, 5, 6)))
    for fn, chars in (("pchar", None), ("query", None)):
        pass
    w("")

    # ---- integer_property_functor
    body = function_body(xss, r"bool\s+integer_property_functor\s*\(")
    mm = re.search(r"if\s*\(\s*begin\s*!=\s*end\s*&&\s*\*begin\s*==\s*('(?:\\.|[^'\\])')\s*\)\s*begin\+\+\s*;\s*if\s*\(\s*begin\s*==\s*end\s*\)\s*return\s+false\s*;\s*while\s*\(\s*begin\s*!=\s*end\s*\)\s*\{\s*char\s+c\s*=\s*\*begin\+\+\s*;\s*if\s*\(([^{}]*?)\)\s*return\s+false\s*;\s*\}\s*return\s+true\s*;", body)
    need(mm, "integer_property_functor shape")
    w(f"def intSign : Nat := {char_val(mm.group(1))}")
    w(f"def intBadDigit (c : Nat) : Bool := {c_to_lean(mm.group(2))}\n")

    # ---- validate_nesting / validate_entry_by_rules: shape checks only
    body = function_body(xss, r"void\s+validate_nesting\s*\(")
    need(re.search(r"case\s+close_tag\s*:\s*if\s*\(xhtml\)\s*\{\s*if\s*\(st\.empty\(\)\)\s*\{\s*cur\.type\s*=\s*invalid_data\s*;\s*break\s*;\s*\}\s*unsigned\s+top_index\s*=\s*st\.top\(\)\s*;\s*st\.pop\(\)\s*;", body)
         and re.search(r"else\s*\{\s*cur\.type\s*=\s*invalid_data\s*;\s*parsed\[top_index\]\.type\s*=\s*invalid_data\s*;\s*\}", body)
         and re.search(r"for\s*\(;;\)\s*\{\s*if\s*\(st\.empty\(\)\)\s*\{\s*cur\.type\s*=\s*invalid_data\s*;\s*break\s*;\s*\}", body)
         and re.search(r"parsed\[top_index\]\.type\s*=\s*open_and_close_tag_without_slash\s*;", body)
         and re.search(r"case\s+open_tag\s*:\s*st\.push\(i\)\s*;", body)
         and len(re.findall(r"cur\.tag\.pair\s*=\s*top_index\s*;\s*parsed\[top_index\]\.tag\.pair\s*=\s*i\s*;", body)) == 2
         and re.search(r"while\s*\(\s*!st\.empty\(\)\s*\)\s*\{\s*parsed\[st\.top\(\)\]\.type\s*=\s*xhtml\s*\?\s*invalid_data\s*:\s*open_and_close_tag_without_slash\s*;\s*st\.pop\(\)\s*;\s*\}", body),
         "validate_nesting shape")
    body = function_body(xss, r"bool\s+validate_entry_by_rules\s*\(")
    need(re.search(r"case\s+rules::stand_alone\s*:\s*if\s*\(\s*part\.type\s*!=\s*open_and_close_tag_without_slash\s*&&\s*part\.type\s*!=\s*open_and_close_tag\s*\)\s*return\s+false\s*;", body)
         and re.search(r"case\s+rules::opening_and_closing\s*:\s*if\s*\(\s*part\.type\s*!=\s*open_tag\s*&&\s*part\.type\s*!=\s*close_tag\s*\)\s*return\s+false\s*;", body)
         and re.search(r"case\s+rules::any_tag\s*:\s*break\s*;", body)
         and re.search(r"case\s+rules::invalid_tag\s*:\s*return\s+false\s*;", body)
         and re.search(r"if\s*\(\s*part\.type\s*==\s*close_tag\s*\)\s*break\s*;", body)
         and re.search(r"if\s*\(\s*prop\.value_begin\s*==\s*0\s*\)\s*\{\s*if\s*\(\s*!r\.valid_boolean_property\(name,pname\)\s*\)\s*return\s+false\s*;", body)
         and re.search(r"case\s+html_entity\s*:\s*if\s*\(\s*!r\.valid_entity\(", body)
         and re.search(r"case\s+html_comment\s*:\s*if\s*\(\s*!r\.comments_allowed\(\)\s*\)", body)
         and re.search(r"case\s+html_numeric_entity\s*:\s*if\s*\(\s*!r\.numeric_entities_allowed\(\)\s*\)", body),
         "validate_entry_by_rules shape")
    # the tag-kind table as data: kind -> accepted entry types
    tynum = {"open_tag": 0, "close_tag": 1, "open_and_close_tag": 2, "open_and_close_tag_without_slash": 3}
    def accepted(kind):
        mk = re.search(r"case\s+rules::" + kind + r"\s*:\s*if\s*\(\s*part\.type\s*!=\s*(\w+)\s*&&\s*part\.type\s*!=\s*(\w+)\s*\)\s*return\s+false\s*;\s*break\s*;", body)
        need(mk and mk.group(1) in tynum and mk.group(2) in tynum, "validate_entry_by_rules: kind " + kind)
        return [tynum[mk.group(1)], tynum[mk.group(2)]]
    w("/-- tag kinds (rules::tag_type) and the entry types each accepts: 0 open, 1 close, 2 open_and_close, 3 open_and_close_without_slash -/")
    w("def kindStandAloneAccepts : List Nat := " + lean_bytes(accepted("stand_alone")))
    w("def kindOpeningAndClosingAccepts : List Nat := " + lean_bytes(accepted("opening_and_closing")))
    w("\nend Cppcms.C04.Gen")
    path = os.path.join(lean, "Cppcms", "C04", "Gen.lean")
    changed = write_if_changed(path, "\n".join(o) + "\n")
    print(("rewrote " if changed else "unchanged ") + path)
    # Gen.lean is written first (so that the proofs are re-checked against the new constants), then the tie is reported broken
    need(not skeleton_changed, "control skeleton changed (hand-transcribed in Model.lean / Uri.lean; data constants are masked): " + ", ".join(skeleton_changed))


if __name__ == "__main__":
    try:
        main(sys.argv[1], sys.argv[2])
    except Untranslatable as e:
        print("UNTRANSLATABLE: " + str(e))
        sys.exit(2)
