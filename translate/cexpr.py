"""Tiny C-expression -> Lean-expression translator used by the extractors.

Handles integer literals (dec/hex/char), identifiers, array subscripts with a
constant index (`in[0]` -> `in0`), unary ! ~ -, casts `(unsigned char)`/`(T)` to
known widths, binary  * / % + - << >> < <= > >= == != & ^ | && || and ?: .
Everything is emitted fully parenthesised over `Nat` (bit operations) or `Bool`
(comparisons), so C and Lean precedence never have to agree.

A cast to an n-bit unsigned type becomes `% 2^n`.  Anything else raises
`Untranslatable`, which the calling extractor reports as a broken tie.
"""
import re


class Untranslatable(Exception):
    pass


TOK = re.compile(r"""\s*(?:
    (?P<num>0[xX][0-9a-fA-F]+|\d+)[uUlL]*|
    (?P<chr>'(?:\\.|[^'\\])')|
    (?P<id>[A-Za-z_][A-Za-z_0-9]*(?:::[A-Za-z_][A-Za-z_0-9]*)*)|
    (?P<op><<|>>|<=|>=|==|!=|&&|\|\||[-+*/%<>&^|!~?:()\[\],.])
)""", re.X)

ESC = {"n": 10, "r": 13, "t": 9, "0": 0, "\\": 92, "'": 39, '"': 34}


def char_val(lit):
    body = lit[1:-1]
    if body[0] == "\\":
        if body[1] in ESC:
            return ESC[body[1]]
        if body[1] == "x":
            return int(body[2:], 16)
        raise Untranslatable("char literal " + lit)
    return ord(body)


def tokenize(s):
    pos, out = 0, []
    s = s.strip()
    while pos < len(s):
        m = TOK.match(s, pos)
        if not m:
            raise Untranslatable(f"cannot tokenize at {s[pos:pos+20]!r}")
        pos = m.end()
        if m.group("num"):
            t = m.group("num")
            out.append(("num", int(t, 16) if t.lower().startswith("0x") else int(t)))
        elif m.group("chr"):
            out.append(("num", char_val(m.group("chr"))))
        elif m.group("id"):
            out.append(("id", m.group("id")))
        else:
            out.append(("op", m.group("op")))
    return out


CAST_BITS = {"unsigned char": 8, "uint8_t": 8, "uint16_t": 16, "unsigned short": 16,
             "uint32_t": 32, "unsigned": 32, "unsigned int": 32, "uint64_t": 64,
             "unsigned long long": 64, "size_t": 64, "unsigned long": 64}
TYPE_WORDS = {"unsigned", "char", "int", "short", "long", "uint8_t", "uint16_t", "uint32_t",
              "uint64_t", "size_t", "signed", "const"}

BIN = [  # lowest precedence first
    ["||"], ["&&"], ["|"], ["^"], ["&"], ["==", "!="], ["<", "<=", ">", ">="],
    ["<<", ">>"], ["+", "-"], ["*", "/", "%"],
]
LEAN_OP = {"||": "||", "&&": "&&", "|": "|||", "^": "^^^", "&": "&&&", "<<": "<<<", ">>": ">>>",
           "+": "+", "-": "-", "*": "*", "/": "/", "%": "%"}
CMP = {"==": "==", "!=": "!=", "<": "<", "<=": "≤", ">": ">", ">=": "≥"}


class Parser:
    def __init__(self, toks, rename=None, funcs=None):
        self.t = toks
        self.i = 0
        self.rename = rename or {}
        self.funcs = funcs or {}

    def peek(self):
        return self.t[self.i] if self.i < len(self.t) else ("eof", None)

    def eat(self, kind=None, val=None):
        k, v = self.peek()
        if (kind and k != kind) or (val is not None and v != val):
            raise Untranslatable(f"expected {kind} {val}, got {k} {v}")
        self.i += 1
        return v

    def expr(self):
        c = self.binary(0)
        if self.peek() == ("op", "?"):
            self.eat()
            a = self.expr()
            self.eat("op", ":")
            b = self.expr()
            return f"(if {c} then {a} else {b})"
        return c

    def binary(self, lvl):
        if lvl == len(BIN):
            return self.unary()
        lhs = self.binary(lvl + 1)
        while self.peek()[0] == "op" and self.peek()[1] in BIN[lvl]:
            op = self.eat()
            rhs = self.binary(lvl + 1)
            if op in CMP:
                lhs = f"(decide ({lhs} {CMP[op]} {rhs}))"
            else:
                lhs = f"({lhs} {LEAN_OP[op]} {rhs})"
        return lhs

    def unary(self):
        k, v = self.peek()
        if k == "op" and v == "!":
            self.eat()
            return f"(!{self.unary()})"
        if k == "op" and v == "(":
            # cast?
            j = self.i + 1
            words = []
            while j < len(self.t) and self.t[j][0] == "id" and self.t[j][1] in TYPE_WORDS:
                words.append(self.t[j][1])
                j += 1
            if words and j < len(self.t) and self.t[j] == ("op", ")"):
                ty = " ".join(w for w in words if w != "const")
                self.i = j + 1
                inner = self.unary()
                if ty in CAST_BITS:
                    return f"({inner} % {2 ** CAST_BITS[ty]})"
                raise Untranslatable("cast to " + ty)
        return self.postfix()

    def postfix(self):
        k, v = self.peek()
        if k == "num":
            self.eat()
            return str(v)
        if k == "op" and v == "(":
            self.eat()
            e = self.expr()
            self.eat("op", ")")
            return e
        if k == "id":
            name = self.eat()
            while True:
                if self.peek() == ("op", "["):
                    self.eat()
                    idx = self.expr()
                    self.eat("op", "]")
                    if name in self.funcs:     # table lookup, e.g. encode_6_to_8[x]
                        name = f"({self.funcs[name]} {idx})"
                        continue
                    if not re.fullmatch(r"\d+", idx):
                        raise Untranslatable("non-constant subscript " + idx)
                    name = f"{name}{idx}"
                elif self.peek() == ("op", "(") and name in self.funcs:
                    self.eat()
                    args = []
                    if self.peek() != ("op", ")"):
                        args.append(self.expr())
                        while self.peek() == ("op", ","):
                            self.eat()
                            args.append(self.expr())
                    self.eat("op", ")")
                    name = "(" + " ".join([self.funcs[name]] + args) + ")"
                else:
                    break
            return self.rename.get(name, name)
        raise Untranslatable(f"unexpected token {k} {v}")


def c_to_lean(src, rename=None, funcs=None):
    p = Parser(tokenize(src), rename, funcs)
    e = p.expr()
    if p.peek()[0] != "eof":
        raise Untranslatable(f"trailing tokens in {src!r}")
    return e


def function_body(src, signature_re):
    """text between the braces of the first function whose header matches signature_re"""
    m = re.search(signature_re, src)
    if not m:
        raise Untranslatable("function not found: " + signature_re)
    i = src.index("{", m.end() - 1)
    depth, j = 0, i
    while j < len(src):
        if src[j] == "{":
            depth += 1
        elif src[j] == "}":
            depth -= 1
            if depth == 0:
                return src[i + 1:j]
        j += 1
    raise Untranslatable("unbalanced braces after " + signature_re)


def strip_c_comments(s):
    s = re.sub(r"/\*.*?\*/", " ", s, flags=re.S)
    s = re.sub(r"//[^\n]*", "", s)
    return s


def c_string_bytes(lit):
    """decode a C string literal body (without the quotes) to a list of ints"""
    out, i = [], 0
    while i < len(lit):
        c = lit[i]
        if c == "\\":
            n = lit[i + 1]
            if n in ESC:
                out.append(ESC[n]); i += 2
            elif n == "x":
                m = re.match(r"[0-9a-fA-F]+", lit[i + 2:])
                out.append(int(m.group(0), 16) & 255); i += 2 + len(m.group(0))
            elif n in "01234567":
                m = re.match(r"[0-7]{1,3}", lit[i + 1:])
                out.append(int(m.group(0), 8)); i += 1 + len(m.group(0))
            else:
                raise Untranslatable("escape \\" + n)
        else:
            out.append(ord(c)); i += 1
    return out


def lean_bytes(bs):
    return "[" + ", ".join(str(b) for b in bs) + "]"


def write_if_changed(path, text):
    import os
    old = open(path).read() if os.path.exists(path) else None
    if old != text:
        os.makedirs(os.path.dirname(path), exist_ok=True)
        with open(path, "w") as f:
            f.write(text)
        return True
    return False
