#!/usr/bin/env python3
"""C09 extractor: lock discipline of mem_cache (src/cache_storage.cpp) -> Cppcms/C09/Gen.lean

Input is clang-14's JSON AST of the *instantiated* class mem_cache<thread_settings> (and
mem_cache<process_settings>, which must give the same tables), so name lookup (the `triggers`
parameter of fetch/stats shadows the member), typedef resolution of the guard types and overload
resolution are the compiler's.  The source is parsed with -DCPPCMS_VERIF_HOOKS so that the
placement of the linearisation-point hook calls is extracted too.

For every virtual method (= entry point reachable through impl::base_cache) it extracts

  * prog      : the guard skeleton: `acq lock mode` at each guard object's declaration, `rel lock` at
                the end of its scope, and between them the *actions* (maximal runs of statements that
                touch shared state, labelled lookup / splice / copyOut / body / readStats);
  * accesses  : every access to a data member of mem_cache, to a member of mem_cache::container
                (cData, cLru, ...) or to an element reached through an iterator (`node`), with
                read/write and the guards held at that statement; helper methods (delete_node,
                nl_clear, check_limits, add_trigger, ...) are inlined at their call sites;
  * hooks     : (method, point, action the hook sits in / next to, guards held);
  * nested    : virtual methods called from a virtual method, with the guards held at the call.

Read/write classification is by a closed vocabulary of member-function names (erase, push_front,
insert, ... mutate; find, begin, end, empty, ... do not): an unknown name applied to shared state
is reported as untranslatable (exit 2) rather than guessed.

usage: c09.py <repo> <lean dir> [<build dir with generated headers>]
"""
import sys, os, json, subprocess
sys.path.insert(0, os.path.dirname(os.path.abspath(__file__)))
from cexpr import Untranslatable, write_if_changed

THIS_FIELDS = {"primary": "primary", "triggers": "triggers", "timeout": "timeout", "lru": "lru", "limit": "limit",
               "size": "size", "triggers_count": "triggersCount", "refs": "refs", "generation": "generation"}
LOCK_FIELDS = {"access_lock": "access", "lru_mutex": "lru"}
CONT_FIELDS = {"data": "cData", "lru": "cLru", "triggers": "cTriggers", "timeout": "cTimeout", "generation": "cGeneration"}
METHODS = {"fetch": "fetch", "store": "store", "rise": "rise", "remove": "remove", "clear": "clear", "stats": "stats",
           "add_ref": "addRef", "del_ref": "delRef"}
MUTATING = {"erase", "push_front", "push_back", "pop_front", "pop_back", "insert", "clear", "rehash", "swap", "splice",
            "assign", "resize", "reserve", "emplace", "emplace_back", "emplace_front", "remove", "sort", "reverse", "merge"}
NONMUT = {"find", "begin", "end", "rbegin", "rend", "empty", "size", "c_str", "data", "count", "length", "max_size",
          "get", "lower_bound", "upper_bound", "equal_range", "front", "back"}
MUT_OPS = {"operator=", "operator++", "operator--", "operator+=", "operator-="}
DEREF_OPS = {"operator->", "operator*"}
HOOK = "cppcms_verif_cache_hook"


def clang_ast(src, incs, flt="mem_cache"):
    cmd = ["clang++-14", "-std=gnu++17", "-fsyntax-only", "-w", "-DCPPCMS_VERIF_HOOKS"] + ["-I" + i for i in incs] + \
          ["-Xclang", "-ast-dump=json", "-Xclang", "-ast-dump-filter=" + flt, src]
    p = subprocess.run(cmd, stdout=subprocess.PIPE, stderr=subprocess.PIPE)
    if p.returncode != 0:
        raise Untranslatable("clang cannot parse " + src + ": " + p.stderr.decode()[-1500:])
    txt = p.stdout.decode()
    dec = json.JSONDecoder()
    i, objs = 0, []
    while i < len(txt):
        while i < len(txt) and txt[i].isspace():
            i += 1
        if i >= len(txt):
            break
        o, i = dec.raw_decode(txt, i)
        objs.append(o)
    return objs


def find_headers(repo, build):
    cands = []
    if build:
        cands += [os.path.join(build, "asan"), build]
    cands += [os.path.join(repo, "_build")]
    # the generated headers (cppcms/config.h, booster/build_config.h) do not depend on the sources under
    # test: fall back on the framework's default build tree (a private VERIF_BUILD may not exist yet)
    cands += [os.path.join(os.path.dirname(os.path.dirname(os.path.abspath(__file__))), ".build", "asan"), "/repo/_build"]
    for c in cands:
        if os.path.exists(os.path.join(c, "booster", "booster", "build_config.h")) and os.path.exists(os.path.join(c, "cppcms", "config.h")):
            return [c, os.path.join(c, "booster")]
    raise Untranslatable("no configured build tree with cppcms/config.h found (looked in %s)" % cands)


def kids(n):
    return [c for c in (n.get("inner") or []) if c]


def strip(n):
    """look through casts/parens/temporaries"""
    while n.get("kind") in ("ImplicitCastExpr", "ParenExpr", "MaterializeTemporaryExpr", "ExprWithCleanups",
                            "CXXBindTemporaryExpr", "CXXFunctionalCastExpr", "CStyleCastExpr", "CXXStaticCastExpr",
                            "ConstantExpr") and kids(n):
        n = kids(n)[0]
    return n


def qt(n):
    t = n.get("type") or {}
    return t.get("desugaredQualType") or t.get("qualType") or ""



MAP_CLASSES = {"cppcms::impl::hash_map<": "hash_map", "cppcms::impl::details::basic_map<": "basic_map",
               "cppcms::impl::details::intrusive_list<": "intrusive_list"}


def map_class_of(t):
    t = t.strip()
    while t.startswith("const "):
        t = t[6:]
    for pre, nm in MAP_CLASSES.items():
        if t.startswith(pre):
            return nm
    return None


def is_ref_decl(rd):
    return (rd.get("type") or {}).get("qualType", "").rstrip().endswith("&")


class MapEffects:
    """Does a member function of private/hash_map.h (hash_map, details::basic_map, details::intrusive_list, as
    instantiated in cache_storage.cpp) write anything that outlives the call?  Decided from the bodies in the
    clang AST, transitively; name-based across instantiations and overloads (the OR of all of them).
    A write = assignment / ++ / -- / mutating std member / placement new / destructor whose target is a member of
    *this, something reached through a pointer, an element of a container, or a reference (variable or
    parameter).  Writes to plain local variables do not count.  kinds: 'this' (members of the object the method
    is called on) and 'deref' (anything reached through pointers/references)."""

    def __init__(self, src, incs):
        self.bodies = {}      # (class, name) -> list of (method decl)
        for flt, cls in (("hash_map", "hash_map"), ("basic_map", "basic_map"), ("intrusive_list", "intrusive_list")):
            for o in clang_ast(src, incs, flt):
                if o.get("kind") == "ClassTemplateDecl" and o.get("name") == cls:
                    for spec in kids(o):
                        if spec.get("kind") == "ClassTemplateSpecializationDecl":
                            self.collect(cls, spec)
        for need in (("hash_map", "find"), ("basic_map", "find"), ("basic_map", "find_in_range"), ("basic_map", "insert"),
                     ("basic_map", "erase"), ("basic_map", "clear"), ("basic_map", "rehash"), ("intrusive_list", "erase")):
            if need not in self.bodies:
                raise Untranslatable(f"private/hash_map.h: {need[0]}::{need[1]} is not instantiated / was renamed")
        self.memo = {}
        self.sites = {}

    def collect(self, cls, spec):
        for m in kids(spec):
            k = m.get("kind")
            if k in ("CXXMethodDecl", "CXXDestructorDecl"):
                if any(x.get("kind") == "CompoundStmt" for x in kids(m)):
                    self.bodies.setdefault((cls, m.get("name")), []).append(m)
            elif k == "FunctionTemplateDecl":
                for sp in kids(m):
                    if sp.get("kind") == "CXXMethodDecl" and any(x.get("kind") == "CompoundStmt" for x in kids(sp)):
                        self.bodies.setdefault((cls, sp.get("name")), []).append(sp)

    def effect(self, cls, name):
        """set of kinds written by cls::name"""
        key = (cls, name)
        if key in self.memo:
            if self.memo[key] is None:
                raise Untranslatable(f"private/hash_map.h: recursion through {cls}::{name}")
            return self.memo[key]
        if key not in self.bodies:
            # declared but never instantiated with a body in this translation unit (e.g. size(), end()): read the
            # template pattern instead is not possible here; such a function is not called by the cache either
            raise Untranslatable(f"private/hash_map.h: {cls}::{name} is called but has no instantiated body")
        self.memo[key] = None
        kinds, sites = set(), []
        for m in self.bodies[key]:
            body = [x for x in kids(m) if x.get("kind") == "CompoundStmt"][0]
            self.walk(body, cls, kinds, sites, f"{cls}::{name}")
        self.memo[key] = kinds
        self.sites[key] = sites
        return kinds

    def target(self, n):
        """where does a write to expression n go: 'local' | 'this' | 'deref'"""
        n = strip(n)
        k = n.get("kind")
        if k == "DeclRefExpr":
            rd = n.get("referencedDecl", {})
            if rd.get("kind") in ("VarDecl", "ParmVarDecl"):
                return "deref" if is_ref_decl(rd) else "local"
            return "deref"
        if k == "MemberExpr":
            base = kids(n)[0] if kids(n) else {}
            if n.get("isArrow"):
                return "this" if strip(base).get("kind") == "CXXThisExpr" else "deref"
            return self.target(base)
        if k == "CXXThisExpr":
            return "this"
        return "deref"       # operator[], operator*, calls returning references, ...

    def walk(self, n, cls, kinds, sites, where):
        k = n.get("kind")
        ks = kids(n)

        def wr(expr, what):
            t = self.target(expr)
            if t != "local":
                kinds.add(t)
                sites.append(f"{where}: {what} -> {t}")

        if k in ("BinaryOperator", "CompoundAssignOperator") and n.get("opcode", "").endswith("=") and \
                n.get("opcode") not in ("==", "!=", "<=", ">=") and ks:
            wr(ks[0], "assignment")
        elif k == "UnaryOperator" and n.get("opcode") in ("++", "--") and ks:
            wr(ks[0], n.get("opcode"))
        elif k == "CXXOperatorCallExpr":
            c = strip(ks[0]) if ks else {}
            op = c.get("referencedDecl", {}).get("name", "")
            if op in MUT_OPS and len(ks) > 1:
                wr(ks[1], op)
        elif k in ("CXXNewExpr", "CXXDeleteExpr"):
            kinds.add("deref")
            sites.append(f"{where}: {k} -> deref")
        elif k == "CXXMemberCallExpr":
            callee = strip(ks[0]) if ks else {}
            if callee.get("kind") == "MemberExpr":
                name = callee.get("name", "")
                base = kids(callee)[0] if kids(callee) else {}
                b = strip(base)
                ocls = cls if b.get("kind") == "CXXThisExpr" else map_class_of(qt(b))
                if name.startswith("~"):
                    kinds.add("deref")
                    sites.append(f"{where}: destructor call -> deref")
                elif ocls and (ocls, name) in self.bodies or (ocls and b.get("kind") == "CXXThisExpr"):
                    sub = self.effect(ocls, name)
                    if "deref" in sub:
                        kinds.add("deref")
                        sites.append(f"{where}: calls {ocls}::{name} (writes through pointers/references)")
                    if "this" in sub:
                        t = "this" if b.get("kind") == "CXXThisExpr" else self.target(base)
                        if t != "local":
                            kinds.add(t)
                            sites.append(f"{where}: calls {ocls}::{name} (writes its object) -> {t}")
                elif ocls:
                    raise Untranslatable(f"private/hash_map.h: {where} calls {ocls}::{name}, which has no instantiated body")
                else:
                    t = self.target(base)
                    if t != "local":
                        if name in MUTATING:
                            kinds.add(t)
                            sites.append(f"{where}: {name}() on a member/element -> {t}")
                        elif name not in NONMUT and not name.startswith("operator"):
                            raise Untranslatable(f"private/hash_map.h: {where}: member function `{name}` on non-local state: "
                                                 f"classify it in translate/c09.py")
        elif k == "CallExpr":
            c = strip(ks[0]) if ks else {}
            if c.get("kind") == "DeclRefExpr" and c.get("referencedDecl", {}).get("name") == "swap":
                for a in ks[1:]:
                    wr(a, "std::swap")
        for c in ks:
            self.walk(c, cls, kinds, sites, where)

    def writes(self, cls, name):
        return bool(self.effect(cls, name))


class Cls:
    """one instantiation of mem_cache"""

    def __init__(self, spec, what, fx=None):
        self.what = what
        self.fx = fx
        self.map_calls = {}      # hash_map member functions the cache calls -> writes?
        self.methods = {}
        self.field_ids = {}      # decl id -> lean field name (this-fields)
        self.cont_ids = {}       # decl id -> lean field name (container fields)
        self.lock_ids = {}
        self.helper_cache = {}
        self.virtual = set()
        for c in kids(spec):
            k = c.get("kind")
            if k == "FieldDecl":
                nm = c.get("name")
                if nm in THIS_FIELDS:
                    self.field_ids[c["id"]] = THIS_FIELDS[nm]
                elif nm in LOCK_FIELDS:
                    self.lock_ids[c["id"]] = LOCK_FIELDS[nm]
                else:
                    raise Untranslatable(f"{what}: unknown data member `{nm}` of mem_cache (classify it in translate/c09.py)")
            elif k == "CXXRecordDecl" and c.get("name") == "container" and c.get("inner"):
                for f in kids(c):
                    if f.get("kind") == "FieldDecl":
                        if f.get("name") not in CONT_FIELDS:
                            raise Untranslatable(f"{what}: unknown member `{f.get('name')}` of mem_cache::container")
                        self.cont_ids[f["id"]] = CONT_FIELDS[f["name"]]
            elif k == "CXXMethodDecl" and any(x.get("kind") == "CompoundStmt" for x in kids(c)):
                self.methods[c["name"]] = c
                if c.get("virtual"):
                    self.virtual.add(c["name"])
        if set(self.field_ids.values()) != set(THIS_FIELDS.values()) or set(self.lock_ids.values()) != {"access", "lru"}:
            raise Untranslatable(f"{what}: data members of mem_cache changed: {sorted(self.field_ids.values())} {sorted(self.lock_ids.values())}")
        if set(self.cont_ids.values()) != set(CONT_FIELDS.values()):
            raise Untranslatable(f"{what}: members of mem_cache::container changed")
        missing = [m for m in METHODS if m not in self.methods or m not in self.virtual]
        if missing:
            raise Untranslatable(f"{what}: virtual methods missing / no longer virtual: {missing}")
        extra = [m for m in self.virtual if m not in METHODS and not m.startswith("~")]
        if extra:
            raise Untranslatable(f"{what}: new virtual methods {extra}: add them to the lock table")

    # ---------------------------------------------------------------- expressions
    def is_this(self, n):
        return strip(n).get("kind") == "CXXThisExpr"

    def guard_of(self, decl):
        """VarDecl -> (lock, mode) if it declares a guard object on one of the two locks"""
        if decl.get("kind") != "VarDecl":
            return None
        locks = []
        self.collect_locks(decl, locks)
        if not locks:
            return None
        if len(locks) != 1:
            raise Untranslatable(f"{self.what}: declaration `{decl.get('name')}` mentions several locks")
        t = qt(decl)
        tn = (decl.get("type") or {}).get("qualType", "")
        if "shared_lock" in t or "shared_guard" in t:
            mode = "shared"
        elif "unique_lock" in t or "unique_guard" in t or t.endswith("mutex::guard") or "lock_guard" in t:
            mode = "exclusive"
        else:
            raise Untranslatable(f"{self.what}: `{decl.get('name')}` of type {tn} / {t} uses a lock but is not a known guard type")
        return (locks[0], mode)

    def collect_locks(self, n, out):
        if n.get("kind") == "MemberExpr" and n.get("referencedMemberDecl") in self.lock_ids:
            out.append(self.lock_ids[n["referencedMemberDecl"]])
        for c in kids(n):
            self.collect_locks(c, out)

    def obj_path(self, n):
        """what object does expression n denote? -> ('field', name) | ('node',) | ('local',) | ('other',)"""
        n = strip(n)
        k = n.get("kind")
        if k == "MemberExpr":
            rid = n.get("referencedMemberDecl")
            if rid in self.cont_ids:
                return ("field", self.cont_ids[rid])
            base = kids(n)[0] if kids(n) else {}
            if rid in self.field_ids and self.is_this(base):
                return ("field", self.field_ids[rid])
            if rid in self.lock_ids:
                return ("lockobj",)
            if n.get("isArrow"):
                if self.is_this(base):
                    return ("other",)
                b = strip(base)
                if b.get("kind") == "DeclRefExpr" and b.get("referencedDecl", {}).get("kind") == "ParmVarDecl" and "*" in qt(b):
                    return ("local",)    # out-parameter (`triggers->insert`, caller-owned)
                return ("node",)
            return self.obj_path(base)     # sub-object of the base
        if k == "DeclRefExpr":
            rk = n.get("referencedDecl", {}).get("kind")
            if rk in ("VarDecl", "ParmVarDecl"):
                # a local *reference* to shared state (`container &cont=main->second`) is handled by the caller via refs
                return ("localref", n["referencedDecl"].get("id")) if "&" in (n.get("referencedDecl", {}).get("type", {}).get("qualType", "")) and rk == "VarDecl" else ("local",)
            return ("other",)
        if k == "CXXOperatorCallExpr":
            op = self.op_name(n)
            if op in DEREF_OPS:
                arg = kids(n)[1] if len(kids(n)) > 1 else {}
                if "unique_ptr" in qt(strip(arg)):
                    return ("lockobj",)
                return ("node",)
            return ("other",)
        if k == "UnaryOperator" and n.get("opcode") == "*":
            b = strip(kids(n)[0])
            if b.get("kind") == "DeclRefExpr" and b.get("referencedDecl", {}).get("kind") == "ParmVarDecl":
                return ("local",)
            return ("node",)
        if k == "CXXThisExpr":
            return ("other",)
        return ("other",)

    def op_name(self, n):
        c = strip(kids(n)[0]) if kids(n) else {}
        return c.get("referencedDecl", {}).get("name", "")

    def scan(self, n, held, acc, ctx):
        """collect accesses below n.  acc: list of (field, write, held, via); ctx: dict(method, refs, nested, hooks, via)"""
        k = n.get("kind")
        ks = kids(n)

        def note(path, write):
            if path[0] == "field":
                acc.append((path[1], write, held, ctx["via"]))
            elif path[0] == "node":
                acc.append(("node", write, held, ctx["via"]))
            elif path[0] == "localref":
                tgt = ctx["refs"].get(path[1])
                if tgt:
                    note(tgt, write)

        if k == "VarDecl":
            # local reference bound to shared state: remember what it aliases
            if "&" in (n.get("type") or {}).get("qualType", "") and ks:
                p = self.obj_path(ks[-1])
                if p[0] in ("field", "node"):
                    ctx["refs"][n["id"]] = p
        if k == "MemberExpr":
            p = self.obj_path(n)
            rid = n.get("referencedMemberDecl")
            if rid in self.cont_ids or (rid in self.field_ids and ks and self.is_this(ks[0])):
                note(p, False)
            elif n.get("isArrow") and p[0] == "node":
                note(p, False)
        elif k == "DeclRefExpr":
            p = self.obj_path(n)
            if p[0] == "localref":
                note(p, False)
        elif k == "CXXMemberCallExpr":
            callee = strip(ks[0])
            if callee.get("kind") == "MemberExpr":
                name = callee.get("name", "")
                base = kids(callee)[0] if kids(callee) else {}
                if self.is_this(base) and name in self.methods:
                    if name in self.virtual:
                        ctx["nested"].append((name, held))
                    else:
                        for (f, w, _h, via) in self.helper(name):
                            acc.append((f, w, held, (ctx["via"] + ">" if ctx["via"] else "") + name + (">" + via if via else "")))
                elif self.is_this(base):
                    raise Untranslatable(f"{self.what}: call of unknown member function {name}")
                else:
                    p = self.obj_path(base)
                    mcls = map_class_of(qt(strip(base)))
                    if mcls and self.fx is not None:
                        # a member function of private/hash_map.h: read/write decided from ITS body, not from its name
                        w = self.fx.writes(mcls, name)
                        self.map_calls[name] = self.map_calls.get(name, False) or w
                        if p[0] in ("field", "node", "localref") and w:
                            note(p, True)
                    elif p[0] in ("field", "node", "localref"):
                        if name in MUTATING:
                            note(p, True)
                        elif name not in NONMUT:
                            raise Untranslatable(f"{self.what}: member function `{name}` applied to shared state in {ctx['method']}: "
                                                 f"classify it as mutating or not in translate/c09.py")
        elif k == "CXXOperatorCallExpr":
            op = self.op_name(n)
            if op in MUT_OPS and len(ks) > 1:
                note(self.obj_path(ks[1]), True)
            elif op in DEREF_OPS and len(ks) > 1:
                if "unique_ptr" not in qt(strip(ks[1])):
                    note(("node",), False)
        elif k == "UnaryOperator" and n.get("opcode") in ("++", "--") and ks:
            note(self.obj_path(ks[0]), True)
        elif k in ("BinaryOperator", "CompoundAssignOperator") and n.get("opcode", "").endswith("=") and \
                n.get("opcode") not in ("==", "!=", "<=", ">=") and ks:
            note(self.obj_path(ks[0]), True)
        elif k == "CallExpr":
            c = strip(ks[0]) if ks else {}
            if c.get("kind") == "DeclRefExpr" and c.get("referencedDecl", {}).get("name") == HOOK:
                a = strip(ks[1]) if len(ks) > 1 else {}
                if a.get("kind") != "IntegerLiteral":
                    raise Untranslatable(f"{self.what}: hook call without literal point in {ctx['method']}")
                ctx["hooks"].append((int(a["value"]), held))
        for c in ks:
            self.scan(c, held, acc, ctx)

    def helper(self, name):
        if name in self.helper_cache:
            if self.helper_cache[name] is None:
                raise Untranslatable(f"{self.what}: recursive helper {name}")
            return self.helper_cache[name]
        self.helper_cache[name] = None
        m = self.methods[name]
        body = [x for x in kids(m) if x.get("kind") == "CompoundStmt"][0]
        if self.has_guard(body):
            raise Untranslatable(f"{self.what}: helper {name} constructs a guard object (lock table assumes only virtual methods lock)")
        acc = []
        ctx = {"method": name, "refs": {}, "nested": [], "hooks": [], "via": ""}
        self.scan(body, (), acc, ctx)
        if ctx["nested"]:
            raise Untranslatable(f"{self.what}: helper {name} calls a virtual method")
        if ctx["hooks"]:
            raise Untranslatable(f"{self.what}: hook call inside helper {name}")
        res = dedup([(f, w, (), via) for f, w, _h, via in acc])
        self.helper_cache[name] = res
        return res

    def has_guard(self, n):
        if n.get("kind") == "VarDecl" and self.guard_of(n):
            return True
        return any(self.has_guard(c) for c in kids(n))

    def has_hook(self, n):
        if n.get("kind") == "DeclRefExpr" and n.get("referencedDecl", {}).get("name") == HOOK:
            return True
        return any(self.has_hook(c) for c in kids(n))

    def has_return(self, n):
        if n.get("kind") == "ReturnStmt":
            return True
        return any(self.has_return(c) for c in kids(n))

    # ---------------------------------------------------------------- statements
    def method_table(self, name):
        m = self.methods[name]
        body = [x for x in kids(m) if x.get("kind") == "CompoundStmt"][0]
        out = {"prog": [], "acc": [], "hooks": [], "nested": []}   # prog items: ('acq',l,m) ('rel',l) ('act',label) ('hook',pt,held)
        ctx = {"method": name, "refs": {}, "nested": out["nested"], "hooks": [], "via": ""}
        self.block(body, (), out, ctx, name)
        # merge adjacent equal actions; attach hooks to an action
        prog = []
        for it in out["prog"]:
            if it[0] == "act" and prog and prog[-1] == it:
                continue
            prog.append(it)
        hooks = []
        for i, it in enumerate(prog):
            if it[0] != "hook":
                continue
            pt, held, inside = it[1], it[2], it[3]
            label = inside
            if label is None:
                # the next action before any lock operation, else the previous one
                for j in range(i + 1, len(prog)):
                    if prog[j][0] == "act":
                        label = prog[j][1]
                        break
                    if prog[j][0] in ("acq", "rel"):
                        break
                if label is None:
                    for j in range(i - 1, -1, -1):
                        if prog[j][0] == "act":
                            label = prog[j][1]
                            break
                        if prog[j][0] in ("acq", "rel"):
                            break
            hooks.append((pt, label or "none", held))
        out["prog"] = [it for it in prog if it[0] != "hook"]
        out["hooks"] = hooks
        out["acc"] = dedup(out["acc"])
        return out

    def block(self, comp, held, out, ctx, mname):
        mine = []
        for st in kids(comp):
            held_now = held + tuple(mine)
            if st.get("kind") == "DeclStmt":
                gs = [(d, self.guard_of(d)) for d in kids(st)]
                if any(g for _, g in gs):
                    if len(gs) != 1:
                        raise Untranslatable(f"{self.what}: guard declared together with other variables in {mname}")
                    g = gs[0][1]
                    out["prog"].append(("acq", g[0], g[1]))
                    mine.append(g)
                    continue
            self.stmt(st, held_now, out, ctx, mname)
        for g in reversed(mine):
            out["prog"].append(("rel", g[0]))

    def stmt(self, st, held, out, ctx, mname):
        k = st.get("kind")
        if self.has_guard(st):
            if k == "CompoundStmt":
                self.block(st, held, out, ctx, mname)
                return
            # a guard buried in if/for/try: descend statement-wise, conditions are units of their own
            for c in kids(st):
                if c.get("kind") == "CompoundStmt":
                    self.block(c, held, out, ctx, mname)
                else:
                    self.stmt(c, held, out, ctx, mname)
            return
        # a unit
        acc = []
        c2 = dict(ctx)
        c2["hooks"] = []
        self.scan(st, held, acc, c2)
        labels = self.labels(mname, acc, st)
        is_bare_hook = self.has_hook(st) and not acc
        for (pt, h) in c2["hooks"]:
            out["prog"].append(("hook", pt, h, None if is_bare_hook else (labels[0] if labels else None)))
        for lb in labels:
            out["prog"].append(("act", lb))
        out["acc"] += acc

    def labels(self, mname, acc, st):
        if not acc:
            return []
        fields_w = {f for f, w, _h, _v in acc if w}
        fields = {f for f, _w, _h, _v in acc}
        if mname == "fetch":
            lb = []
            if "primary" in fields:
                if not self.has_return(st):
                    raise Untranslatable("fetch: the primary.find statement has no early return any more")
                lb.append("lookup")
            if fields_w & {"lru", "cLru"}:
                lb.append("splice")
            rest = fields - {"primary", "lru", "cLru"}
            if "primary" not in fields and not (fields_w & {"lru", "cLru"}) and rest:
                lb.append("copyOut")
            if fields_w - {"lru", "cLru"}:
                lb.append("body")     # fetch writing anything else: let the discipline theorem see it
            return lb
        if mname == "stats":
            return ["body"] if fields_w else ["readStats"]
        return ["body"]


def dedup(acc):
    seen, res = set(), []
    for a in acc:
        key = (a[0], a[1], a[2])
        if key not in seen:
            seen.add(key)
            res.append(a)
    return res


# ------------------------------------------------------------------------- output
def lean_held(h):
    return "[" + ", ".join(f"(.{l}, .{m})" for l, m in h) + "]"


def lean_instr(it):
    if it[0] == "acq":
        return f".acq .{it[1]} .{it[2]}"
    if it[0] == "rel":
        return f".rel .{it[1]}"
    return f".act .{it[1]}"


def tables(cls):
    return {m: cls.method_table(m) for m in METHODS}


def comparable(t):
    return {m: (v["prog"], [(a[0], a[1], a[2]) for a in v["acc"]], v["hooks"], v["nested"]) for m, v in t.items()}


def main(repo, lean, build=None):
    src = os.path.join(repo, "src", "cache_storage.cpp")
    incs = [repo, os.path.join(repo, "booster"), os.path.join(repo, "private"), os.path.join(repo, "src")] + find_headers(repo, build)
    objs = clang_ast(src, incs)
    specs = {}
    for o in objs:
        if o.get("kind") != "ClassTemplateDecl" or o.get("name") != "mem_cache":
            continue
        for c in kids(o):
            if c.get("kind") == "ClassTemplateSpecializationDecl":
                arg = [a for a in kids(c) if a.get("kind") == "TemplateArgument"]
                t = arg[0].get("type", {}).get("qualType", "") if arg else ""
                specs[t.split("::")[-1]] = c
    if "thread_settings" not in specs:
        raise Untranslatable("mem_cache<thread_settings> is not instantiated in cache_storage.cpp")
    fx = MapEffects(src, incs)
    ct = Cls(specs["thread_settings"], "mem_cache<thread_settings>", fx)
    tt = tables(ct)
    same = True
    map_calls = dict(ct.map_calls)
    if "process_settings" in specs:
        cp = Cls(specs["process_settings"], "mem_cache<process_settings>", fx)
        tp = tables(cp)
        same = comparable(tp) == comparable(tt)
        for k, v in cp.map_calls.items():
            map_calls[k] = map_calls.get(k, False) or v

    o = []
    w = o.append
    w("/- GENERATED by translate/c09.py from src/cache_storage.cpp (clang-14 AST of mem_cache<thread_settings>). Do not edit. -/")
    w("import Cppcms.C09.Types")
    w("set_option linter.unusedVariables false\nnamespace Cppcms.C09.Gen\nopen Cppcms.C09\n")
    w("/-- guard skeleton of every virtual method: guard construction = `acq`, end of its scope = `rel`,\n"
      "runs of statements touching shared state = `act` -/")
    w("def prog : Method → List Instr")
    for m, lm in METHODS.items():
        w(f"  | .{lm} => [" + ", ".join(lean_instr(i) for i in tt[m]["prog"]) + "]")
    w("")
    w("/-- every access to shared state, helpers inlined: (field, isWrite, guards held) -/")
    w("def accesses : Method → List Access")
    for m, lm in METHODS.items():
        w(f"  | .{lm} => [")
        rows = [f"      ⟨.{f}, {'true' if wr else 'false'}, {lean_held(h)}⟩" + (f"  -- via {via}" if via else "") for f, wr, h, via in tt[m]["acc"]]
        # comments must not swallow the separating commas: put the comma before the comment
        fixed = []
        for i, r in enumerate(rows):
            if i + 1 < len(rows):
                if "  -- " in r:
                    a, b = r.split("  -- ", 1)
                    fixed.append(a + ",  -- " + b)
                else:
                    fixed.append(r + ",")
            else:
                fixed.append(r)
        o.extend(fixed)
        w("    ]")
    w("")
    w("/-- placement of the linearisation-point hook calls: (method, point, action it belongs to, guards held) -/")
    w("def hooks : List Hook := [")
    hs = [f"  ⟨.{METHODS[m]}, {pt}, .{lb}, {lean_held(h)}⟩" for m in METHODS for pt, lb, h in tt[m]["hooks"]]
    w(",\n".join(hs))
    w("]\n")
    w("/-- virtual methods called from a virtual method: (caller, callee, guards held at the call) -/")
    w("def nested : List (Method × Method × List (LockId × Mode)) := [")
    ns = [f"  (.{METHODS[m]}, .{METHODS[c]}, {lean_held(h)})" for m in METHODS for c, h in tt[m]["nested"]]
    w(",\n".join(ns))
    w("]\n")
    w("/-- member functions of `cppcms::impl::hash_map` (private/hash_map.h) that `mem_cache` calls on `primary` /\n"
      "`triggers`, and whether their bodies (transitively: `details::basic_map`, `details::intrusive_list`) write\n"
      "anything but local variables.  The access table above uses this, not the function's name. -/")
    w("def hashMapCalls : List (String × Bool) := [" + ", ".join(f'("{k}", {"true" if v else "false"})' for k, v in sorted(map_calls.items())) + "]")
    w("/-- where the hash map's functions write (informational) -/")
    sites = sorted({x for key in fx.sites for x in fx.sites[key]})
    w("def hashMapWriteSites : List String := [" + ", ".join('"' + x.replace('"', "'") + '"' for x in sites) + "]\n")
    w("/-- the instantiation for the process-shared back-end yields the same four tables -/")
    w(f"def processVariantSame : Bool := {'true' if same else 'false'}")
    w("\nend Cppcms.C09.Gen")
    path = os.path.join(lean, "Cppcms", "C09", "Gen.lean")
    changed = write_if_changed(path, "\n".join(o) + "\n")
    print(("rewrote " if changed else "unchanged ") + path)


if __name__ == "__main__":
    try:
        main(*sys.argv[1:4])
    except Untranslatable as e:
        print("UNTRANSLATABLE: " + str(e))
        sys.exit(2)
