#!/usr/bin/env python3
"""C07/C08 extractor: src/cache_storage.cpp (mem_cache) -> Cppcms/C07/Gen.lean

Regenerated on every run of the C07 and C08 checks.  It transcribes the *conditions* of
mem_cache (fetch's expiry test, the check_limits loop guard and victim choice, store's early
returns, the own-key-trigger test, the memory fractions of process_settings) into Lean
definitions used by Model.lean, and verifies that the *statement order* of delete_node, rise,
store, fetch, remove, nl_clear, add_trigger still has the shape Model.lean was written
against (a list of regular expressions that must match in order).  Exit 2 + message when the
source no longer has that shape: the check reports a broken tie.

usage: c07.py <repo> <lean dir> [--cache-only]   (--cache-only: C08's run; tolerate changes in cache_interface.cpp)
"""
import sys, re, os
sys.path.insert(0, os.path.dirname(os.path.abspath(__file__)))
from cexpr import *


def strip_hooks(src):
    """drop `#ifdef CPPCMS_VERIF_HOOKS … #endif` blocks: add-only verification callbacks (null unless a harness
    registers one; the C07/C08 harness does not), not part of the code being modelled"""
    out, skip = [], False
    for line in src.split("\n"):
        t = line.strip()
        if not skip and re.match(r"#\s*ifdef\s+CPPCMS_VERIF_HOOKS\b", t):
            skip = True
            continue
        if skip:
            if re.match(r"#\s*(if|ifdef|ifndef)\b", t):
                raise Untranslatable("nested preprocessor conditional inside a CPPCMS_VERIF_HOOKS block")
            if re.match(r"#\s*(else|elif)\b", t):
                raise Untranslatable("#else branch of a CPPCMS_VERIF_HOOKS block (hooks must be add-only)")
            if re.match(r"#\s*endif\b", t):
                skip = False
            continue
        out.append(line)
    return "\n".join(out)


def squeeze(s):
    return re.sub(r"\s+", "", s)


def expect_in_order(name, body, pats):
    """every regex of pats must match the whitespace-free body, each after the previous one"""
    b = squeeze(body)
    pos = 0
    for p in pats:
        m = re.compile(p).search(b, pos)
        if not m:
            raise Untranslatable(f"{name}: expected /{p}/ after offset {pos} in: {b[:400]}")
        pos = m.end()
    return b


def iface(repo, w):
    """src/cache_interface.cpp: constants and statement-order shape of the trigger-recording layer (Iface.lean)"""
    src = strip_hooks(strip_c_comments(open(os.path.join(repo, "src/cache_interface.cpp")).read()))
    m = re.search(r"const\s+time_t\s+infty\s*=\s*\(sizeof\(time_t\)==4\s*\?\s*0x7FFFFFFF\s*:\s*(0x[0-9A-Fa-f]+)ULL\s*\)\s*-\s*([0-9*\s]+);", src)
    if not m:
        raise Untranslatable("cache_interface: infty")
    w("\n/-- `infty` of cache_interface.cpp (64-bit time_t): deadline used for timeout < 0 -/")
    w(f"def ifaceInfty : Int := {int(m.group(1), 16)} - ({c_to_lean(m.group(2).strip())})")
    body = function_body(src, r"time_t\s+deadtime\s*\(\s*int\s+sec\s*\)\s*\{")
    expect_in_order("deadtime", body, [r"^if\(sec<0\)returninfty;else\{time_ttmp;time\(&tmp\);", r"if\(tmp\+sec<tmp\)\{throw", r"returntmp\+sec;\}$"])
    body = function_body(src, r"void\s+cache_interface::add_trigger\s*\(")
    expect_in_order("cache_interface::add_trigger", body, [
        r"^if\(nocache\(\)\)return;",
        r"for\(std::set<triggers_recorder\*>::iteratorp=recorders_\.begin\(\);p!=recorders_\.end\(\);\+\+p\)\(\*p\)->add\(t\);",
        r"triggers_\.insert\(t\);$"])
    body = function_body(src, r"void\s+triggers_recorder::add\s*\(")
    expect_in_order("triggers_recorder::add", body, [r"^triggers_\.insert\(t\);$"])
    body = function_body(src, r"triggers_recorder::triggers_recorder\s*\(\s*cache_interface\s*&\s*cache\s*\)\s*:\s*cache_\(&cache\)\s*\{")
    expect_in_order("triggers_recorder ctor", body, [r"^cache_->add_triggers_recorder\(this\);$"])
    body = function_body(src, r"std::set<std::string>\s+triggers_recorder::detach\s*\(")
    expect_in_order("triggers_recorder::detach", body, [r"^if\(cache_\)\{cache_->remove_triggers_recorder\(this\);cache_=0;\}else\{throw",
                                                        r"std::set<std::string>result;result\.swap\(triggers_\);returnresult;$"])
    body = function_body(src, r"void\s+cache_interface::add_triggers_recorder\s*\(")
    expect_in_order("add_triggers_recorder", body, [r"^recorders_\.insert\(tr\);$"])
    body = function_body(src, r"void\s+cache_interface::remove_triggers_recorder\s*\(")
    expect_in_order("remove_triggers_recorder", body, [r"^recorders_\.erase\(tr\);$"])
    body = function_body(src, r"bool\s+cache_interface::fetch\s*\(")
    expect_in_order("cache_interface::fetch", body, [
        r"^if\(nocache\(\)\)returnfalse;set<string>new_trig;",
        r"if\(cache_module_->fetch\(key,result,\(notriggers\?0:&new_trig\)\)\)\{",
        r"if\(!notriggers\)\{.*?for\(p=new_trig\.begin\(\);p!=new_trig\.end\(\);\+\+p\)add_trigger\(\*p\);\}",
        r"returntrue;\}returnfalse;$"])
    body = function_body(src, r"void\s+cache_interface::store\s*\(")
    expect_in_order("cache_interface::store", body, [
        r"^if\(nocache\(\)\)return;if\(!notriggers\)\{",
        r"for\(p=triggers\.begin\(\);p!=triggers\.end\(\);\+\+p\)add_trigger\(\*p\);add_trigger\(key\);\}",
        r"cache_module_->store\(key,data,triggers,deadtime\(timeout\)\);$"])
    body = function_body(src, r"void\s+cache_interface::store_page\s*\(")
    expect_in_order("cache_interface::store_page", body, [
        r"^if\(nocache\(\)\)return;if\(!context_\)return;context_->response\(\)\.finalize\(\);",
        r"std::stringr_key=\(page_compression_used_\?\"_Z:\":\"_U:\"\)\+key;",
        r"add_trigger\(key\);",
        r"cache_module_->store\(r_key,context_->response\(\)\.copied_data\(\),triggers_,deadtime\(timeout\)\);$"])
    body = function_body(src, r"bool\s+cache_interface::fetch_page\s*\(")
    expect_in_order("cache_interface::fetch_page", body, [
        r"^if\(nocache\(\)\)returnfalse;if\(!context_\)returnfalse;boolgzip=context_->response\(\)\.need_gzip\(\);page_compression_used_=gzip;",
        r"std::stringr_key=\(gzip\?\"_Z:\":\"_U:\"\)\+key;",
        r"if\(cache_module_->fetch\(r_key,tmp,0\)\)\{",
        r"returntrue;\}else\{context_->response\(\)\.copy_to_cache\(\);returnfalse;\}$"])
    mz = re.search(r"\(\s*gzip\s*\?\s*\"((?:\\.|[^\"\\])*)\"\s*:\s*\"((?:\\.|[^\"\\])*)\"\s*\)\s*\+\s*key", src)
    if not mz:
        raise Untranslatable("fetch_page key prefixes")
    w("/-- key prefixes of cached pages (gzip / plain) -/")
    w(f"def pagePrefixGzip : List UInt8 := {lean_bytes(c_string_bytes(mz.group(1)))}")
    w(f"def pagePrefixPlain : List UInt8 := {lean_bytes(c_string_bytes(mz.group(2)))}")
    body = function_body(src, r"void\s+cache_interface::reset\s*\(")
    expect_in_order("cache_interface::reset", body, [r"^triggers_\.clear\(\);$"])
    body = function_body(src, r"void\s+cache_interface::rise\s*\(")
    expect_in_order("cache_interface::rise", body, [r"^if\(nocache\(\)\)return;cache_module_->rise\(t\);$"])


def pool(repo, w):
    """src/cache_pool.cpp: how the settings become the arguments of thread_cache_factory / process_cache_factory"""
    src = strip_hooks(strip_c_comments(open(os.path.join(repo, "src/cache_pool.cpp")).read()))
    body = squeeze(function_body(src, r"cache_pool::cache_pool\s*\(\s*json::value\s+const\s*&\s*settings\s*\)\s*:\s*d\(new\s+_data\(\)\)\s*\{"))
    if not re.search(r'^std::stringtype=settings\.get\("cache\.backend","none"\);', body):
        raise Untranslatable("cache_pool: cache.backend")
    sentinel = r'(?:if\(!items\)items=(\d+);|if\(items==0\)items=(\d+);)?'
    mt = re.search(r'if\(type=="thread_shared"\)\{if\(settings\.get\("service\.worker_processes",0\)>1\)throwcppcms_error\(.*?\);'
                   r'unsigneditems=settings\.get\("cache\.limit",(\d+)\);' + sentinel + r'd->module=impl::thread_cache_factory\(items\);\}', body)
    if not mt:
        raise Untranslatable("cache_pool: thread_shared branch (cache.limit -> thread_cache_factory)")
    def lim(dflt, s1, s2):
        k = s1 or s2
        return f"let items := configured.getD {dflt}; if items = 0 then {k} else items" if k else f"configured.getD {dflt}"
    w("\n/-- `cache_pool`: `cache.limit` (absent = `none`) -> argument of `thread_cache_factory` -/")
    w(f"def poolThreadLimit (configured : Option Nat) : Nat := {lim(mt.group(1), mt.group(2), mt.group(3))}")
    mp = re.search(r'elseif\(type=="process_shared"\)\{#ifdefined\(CPPCMS_WIN32\)throwcppcms_error\("[^"]*"\);#elifdefined\(CPPCMS_NO_PREFOK_CACHE\)throwcppcms_error\("[^"]*"\);#elsesize_tmemory=settings\.get\("cache\.memory",(\d+)\);if\(memory<(\d+)\)throwcppcms_error\(.*?\);'
                   r'unsigneditems=settings\.get\("cache\.limit",memory\);' + sentinel + r'd->module=impl::process_cache_factory\(memory\*(\d+),items\);#endif\}', body)
    if not mp:
        raise Untranslatable("cache_pool: process_shared branch (cache.memory, cache.limit -> process_cache_factory)")
    w("/-- `cache.memory` in KiB (absent = `none`), its minimum, and the bytes / limit handed to `process_cache_factory` -/")
    w(f"def poolProcessMemoryKB (cfgMem : Option Nat) : Nat := cfgMem.getD {mp.group(1)}")
    w(f"def poolProcessMinMemoryKB : Nat := {mp.group(2)}")
    w(f"def poolProcessBytes (cfgMem : Option Nat) : Nat := poolProcessMemoryKB cfgMem * {mp.group(5)}")
    k = mp.group(3) or mp.group(4)
    inner = "configured.getD (poolProcessMemoryKB cfgMem)"
    w("def poolProcessLimit (configured cfgMem : Option Nat) : Nat := " +
      (f"let items := {inner}; if items = 0 then {k} else items" if k else inner))


def main(repo, lean, cache_only=False):
    src = strip_hooks(strip_c_comments(open(os.path.join(repo, "src/cache_storage.cpp")).read()))
    o = []
    w = o.append
    w("/- GENERATED by translate/c07.py from src/cache_storage.cpp. Do not edit. -/")
    w("set_option linter.unusedVariables false\nnamespace Cppcms.C07.Gen\n")

    # ---- process_settings / thread_settings
    ps = function_body(src, r"struct\s+process_settings\s*\{")
    m = re.search(r"static\s+bool\s+not_enough_memory\s*\(\s*\)\s*\{\s*return\s+([^;]+);\s*\}", ps)
    if not m:
        raise Untranslatable("process_settings::not_enough_memory")
    e = m.group(1).replace("process_memory->max_available()", "maxAvailable").replace("process_memory->size()", "memSize")
    w("/-- `process_settings::not_enough_memory()` -/")
    w(f"def processNotEnoughMemory (maxAvailable memSize : Nat) : Bool := {c_to_lean(e)}")
    m = re.search(r"static\s+size_t\s+size_limit\s*\(\s*\)\s*\{\s*return\s+([^;]+);\s*\}", ps)
    if not m:
        raise Untranslatable("process_settings::size_limit")
    e = m.group(1).replace("process_memory->size()", "memSize")
    w("/-- `process_settings::size_limit()` -/")
    w(f"def processSizeLimit (memSize : Nat) : Nat := {c_to_lean(e)}")
    ts = function_body(src, r"struct\s+thread_settings\s*\{")
    if not re.search(r"static\s+bool\s+not_enough_memory\s*\(\s*\)\s*\{\s*return\s+false\s*;\s*\}", ts):
        raise Untranslatable("thread_settings::not_enough_memory is no longer constantly false")
    if not re.search(r"static\s+size_t\s+size_limit\s*\(\s*\)\s*\{\s*return\s+std::numeric_limits<size_t>::max\(\)\s*;\s*\}", ts):
        raise Untranslatable("thread_settings::size_limit is no longer SIZE_MAX")
    w("/-- `thread_settings`: never out of memory, size_limit = SIZE_MAX (modelled as `none`) -/")
    w("def threadNotEnoughMemory : Bool := false\n")

    # ---- delete_node
    body = function_body(src, r"void\s+delete_node\s*\(\s*pointer\s+p\s*\)\s*\{")
    expect_in_order("delete_node", body, [
        r"lru\.erase\(p->second\.lru\);",
        r"timeout\.erase\(p->second\.timeout\);",
        r"for\(i=p->second\.triggers\.begin\(\);i!=p->second\.triggers\.end\(\);i\+\+\)\{",
        r"i->first->second\.erase\(i->second\);",
        r"triggers_count--;",
        r"if\(i->first->second\.empty\(\)\)triggers\.erase\(i->first\);",
        r"\}primary\.erase\(p\);",
        r"size--;$",
    ])

    # ---- fetch
    body = function_body(src, r"virtual\s+bool\s+fetch\s*\(")
    b = expect_in_order("fetch", body, [
        r"time\(&now\);",
        r"if\(\(p=primary\.find\(key\)\)==primary\.end\(\)\|\|",
        r"\)\{returnfalse;\}",
        r"lru\.erase\(p->second\.lru\);lru\.push_front\(p\);p->second\.lru=lru\.begin\(\);",
        r"if\(a\)\*a=to_std\(p->second\.data\);",
        r"if\(triggers\)\{.*?for\(tp=p->second\.triggers\.begin\(\);tp!=p->second\.triggers\.end\(\);tp\+\+\)\{triggers->insert\(to_std\(tp->first->first\)\);\}\}",
        r"if\(timeout_out\)\{\*timeout_out=p->second\.timeout->first;\}",
        r"if\(gen\)\*gen=p->second\.generation;",
        r"returntrue;$",
    ])
    m = re.search(r"if\s*\(\s*\(p=primary\.find\(key\)\)\s*==\s*primary\.end\(\)\s*\|\|\s*(.*?)\)\s*\{\s*return\s+false;", body, re.S)
    if not m:
        raise Untranslatable("fetch: miss condition")
    e = m.group(1).replace("p->second.timeout->first", "deadline")
    w("/-- second disjunct of fetch's miss condition (`p->second.timeout->first` is the entry's deadline) -/")
    w(f"def fetchExpired (deadline now : Int) : Bool := {c_to_lean(e)}\n")

    # ---- rise
    body = function_body(src, r"virtual\s+void\s+rise\s*\(")
    expect_in_order("rise", body, [
        r"triggers_ptrp=triggers\.find\(trigger\);",
        r"if\(p==triggers\.end\(\)\)return;",
        r"std::list<pointer>kill_list;",
        r"for\(typenamepointer_list_type::iteratorit=p->second\.begin\(\);it!=p->second\.end\(\);\+\+it\)\{kill_list\.push_back\(\*it\);\}",
        r"for\(lptr=kill_list\.begin\(\);lptr!=kill_list\.end\(\);lptr\+\+\)\{delete_node\(\*lptr\);\}$",
    ])

    # ---- nl_clear / clear / stats / remove
    body = function_body(src, r"void\s+nl_clear\s*\(\s*\)\s*\{")
    expect_in_order("nl_clear", body, [r"timeout\.clear\(\);", r"lru\.clear\(\);", r"primary\.clear\(\);", r"primary\.rehash\(limit\);",
                                       r"triggers\.clear\(\);", r"triggers\.rehash\(limit\);", r"size=0;", r"triggers_count=0;$"])
    body = function_body(src, r"virtual\s+void\s+clear\s*\(\s*\)\s*\{")
    expect_in_order("clear", body, [r"^wrlock_guardlock\(\*access_lock\);nl_clear\(\);$"])
    body = function_body(src, r"virtual\s+void\s+stats\s*\(")
    expect_in_order("stats", body, [r"keys=size;", r"triggers=triggers_count;$"])
    body = function_body(src, r"virtual\s+void\s+remove\s*\(")
    expect_in_order("remove", body, [r"pointerp=primary\.find\(key\);", r"if\(p==primary\.end\(\)\)return;", r"delete_node\(p\);$"])

    # ---- check_limits
    body = function_body(src, r"void\s+check_limits\s*\(\s*\)\s*\{")
    expect_in_order("check_limits", body, [
        r"time\(&now\);", r"while\(", r"\)\{if\(", r"\)\{main=timeout\.begin\(\)->second;\}",
        r"elseif\(!lru\.empty\(\)\)\{main=\*lru\.rbegin\(\);\}", r"elsebreak;", r"delete_node\(main\);\}$"])
    m = re.search(r"while\s*\((.*?)\)\s*\{\s*if\s*\((.*?)\)\s*\{\s*main\s*=\s*timeout\.begin\(\)->second;", body, re.S)
    if not m:
        raise Untranslatable("check_limits: loop")
    cond, exp = m.groups()
    cond = cond.replace("not_enough_memory()", "nem")
    exp = exp.replace("!timeout.empty()", "toNonEmpty").replace("timeout.begin()->first", "first")
    w("/-- guard of the `while` in check_limits (`nem` = answer of not_enough_memory()) -/")
    w(f"def limitsLoopCond (size limit : Nat) (nem : Bool) : Bool := {c_to_lean(cond)}")
    w("/-- check_limits: evict the head of the timeout index (else the LRU tail) -/")
    w(f"def evictExpired (toNonEmpty : Bool) (first now : Int) : Bool := {c_to_lean(exp)}\n")

    # ---- add_trigger
    body = function_body(src, r"void\s+add_trigger\s*\(\s*pointer\s+p\s*,")
    expect_in_order("add_trigger", body, [
        r"std::pair<triggers_ptr,bool>r=triggers\.insert\(tr\);", r"triggers_ptrit=r\.first;", r"it->second\.push_front\(p\);",
        r"p->second\.triggers\.push_back\(trigger_ptr_type\(it,it->second\.begin\(\)\)\);", r"triggers_count\+\+;$"])

    # ---- store
    body = function_body(src, r"virtual\s+void\s+store\s*\(")
    b = squeeze(body)
    m = re.match(r"string_typear;try\{string_typetmp=to_int\(a\);ar\.swap\(tmp\);\}catch\(std::bad_allocconst&\)\{(.*?)\}wrlock_guardlock\(\*access_lock\);", b)
    if not m:
        raise Untranslatable("store: value copy prologue")
    handler = m.group(1)
    if handler == "return;":
        removes = "false"
    elif handler == "remove(key);return;":
        removes = "true"
    else:
        raise Untranslatable("store: unknown bad_alloc handler of the value copy: " + handler)
    w("/-- what `store` does when copying the value throws bad_alloc: `true` = the previous entry of\nthe key is removed first (`remove(key); return;`), `false` = plain `return;` (defect D9) -/")
    w(f"def copyFailRemovesOld : Bool := {removes}\n")
    expect_in_order("store", body, [
        r"wrlock_guardlock\(\*access_lock\);try\{pointermain;main=primary\.find\(key\);",
        r"if\(main!=primary\.end\(\)\)delete_node\(main\);",
        r"if\(", r"\)return;",
        r"check_limits\(\);",
        r"string_typeint_key=to_int\(key\);",
        r"res=primary\.insert\(std::pair<string_type,container>\(int_key,container\(\)\)\);",
        r"size\+\+;", r"main=res\.first;", r"container&cont=main->second;", r"cont\.data\.swap\(ar\);",
        r"if\(gen\)cont\.generation=\*gen;elsecont\.generation=generation\+\+;",
        r"lru\.push_front\(main\);cont\.lru=lru\.begin\(\);",
        r"cont\.timeout=timeout\.insert\(std::pair<time_t,pointer>\(timeout_in,main\)\);",
        r"if\(", r"\)\{add_trigger\(main,key\);\}",
        r"for\(si=triggers_in\.begin\(\);si!=triggers_in\.end\(\);si\+\+\)\{add_trigger\(main,\*si\);\}",
        r"\}catch\(std::bad_allocconst&e\)\{nl_clear\(\);\}$",
    ])
    m = re.search(r"delete_node\(main\);\s*if\s*\((.*?)\)\s*return;\s*check_limits", body, re.S)
    if not m:
        raise Untranslatable("store: size_limit early return")
    e = m.group(1).replace("size_limit()", "sizeLimit")
    w("/-- store's early return after deleting the previous entry (`size` is the entry *count*) -/")
    w(f"def storeRefused (size sizeLimit : Nat) : Bool := {c_to_lean(e)}")
    m = re.search(r"if\s*\(\s*triggers_in\.find\(key\)\s*(==|!=)\s*triggers_in\.end\(\)\s*\)\s*\{\s*add_trigger\(main,key\);", body)
    if not m:
        raise Untranslatable("store: own-key trigger test")
    w("/-- the key itself is added as a trigger iff (`true`) it is NOT / (`false`) it IS among triggers_in -/")
    w(f"def ownKeyAddedWhenAbsent : Bool := {'true' if m.group(1) == '==' else 'false'}")

    # constructor: counters start at zero
    if not re.search(r"mem_cache\(unsigned pages=0\)\s*:\s*lru_mutex\(new mutex_type\(\)\),\s*access_lock\(new shared_mutex_type\(\)\),\s*limit\(pages\),\s*size\(0\),\s*refs\(0\),\s*generation\(0\)\s*\{\s*nl_clear\(\);", src):
        raise Untranslatable("mem_cache constructor")
    path = os.path.join(lean, "Cppcms", "C07", "Gen.lean")
    if cache_only:
        # C08 uses the mem_cache part only: a change in src/cache_interface.cpp is C07's business; keep the interface
        # constants of the existing Gen.lean so that the file stays complete
        tmp = []
        try:
            iface(repo, tmp.append)
            pool(repo, tmp.append)
            o.extend(tmp)
        except Untranslatable:
            old = open(path).read() if os.path.exists(path) else ""
            for name, dflt in (("ifaceInfty : Int", "0"), ("pagePrefixGzip : List UInt8", "[]"), ("pagePrefixPlain : List UInt8", "[]"),
                               ("poolThreadLimit (configured : Option Nat) : Nat", "0"), ("poolProcessMemoryKB (cfgMem : Option Nat) : Nat", "0"),
                               ("poolProcessMinMemoryKB : Nat", "0"), ("poolProcessBytes (cfgMem : Option Nat) : Nat", "0"),
                               ("poolProcessLimit (configured cfgMem : Option Nat) : Nat", "0")):
                m = re.search(r"^def " + re.escape(name) + r" := .*$", old, re.M)
                w(m.group(0) if m else f"def {name} := {dflt}")
    else:
        iface(repo, w)
        pool(repo, w)
    w("\nend Cppcms.C07.Gen")
    write_if_changed(path, "\n".join(o) + "\n")
    print(path)


if __name__ == "__main__":
    try:
        main(sys.argv[1], sys.argv[2], cache_only=("--cache-only" in sys.argv[3:]))
    except Untranslatable as e:
        print("c07 translator: source no longer has the expected shape:", e)
        sys.exit(2)
