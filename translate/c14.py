#!/usr/bin/env python3
"""C14 extractor:
     private/utf_iterator.h, booster/booster/locale/utf.h,
     private/encoding_validators.h, src/encoding.cpp      ->  Cppcms/C14/Gen.lean

Regenerated on every run of the C14 check.  What is *translated* (the text of the C++
expression goes through cexpr.c_to_lean, so a changed constant / comparison / operator
changes the Lean definition and the proofs in Props.lean are re-checked against it):

  * both decoders' helper functions (`utf::valid`/`is_valid_codepoint`, `is_trail`,
    `trail_length`, `width`) as if/return chains,
  * every condition and every assignment right-hand side inside `utf8::next` and
    `utf_traits<char,1>::decode` (ASCII/HTML test, lead mask, the three trail tests and
    accumulations of the fall-through switch, code-point validity, shortest form, the
    HTML C1 rejection),
  * every single-byte `*_valid` template of encoding_validators.h -> one byte predicate each,
  * the `predefined_[...]` name -> validator assignments and the character classes of
    `encodings_comparator::next`,
  * the boolean flags of the `utf8::next` calls in `validate_or_filter_utf8`, and the
    `html` argument of `utf8_valid`.

What is only *shape-checked* (statement order / control flow must match a template exactly,
else exit 2 = broken tie; the control flow itself is transcribed by hand in Model.lean and
tied by the correspondence run): the statement sequence of `next`/`decode`, the `validate`
loops, the loop prefix of each single-byte validator, `validate_or_filter_*`, the dispatch
in `valid`/`validate_or_filter`.
"""
import sys, re, os
sys.path.insert(0, os.path.dirname(os.path.abspath(__file__)))
from cexpr import *


def squash(s):
    return re.sub(r"\s+", "", s)


def template_match(what, text, template):
    """`template` is squashed C text with holes «name» (an expression: no ; { }) .
    Returns dict name -> captured text (from the *squashed* source, which c_to_lean can
    still tokenise since C operators/identifiers in expressions need no blanks)."""
    parts = re.split(r"«(\w+)»", template)
    rx = ""
    for k, p in enumerate(parts):
        rx += re.escape(p) if k % 2 == 0 else f"(?P<{p}>[^;{{}}]+?)"
    m = re.fullmatch(rx, squash(text))
    if not m:
        # find how far the literal prefix agrees, for the message
        sq = squash(text)
        lit = parts[0]
        n = 0
        while n < min(len(lit), len(sq)) and lit[n] == sq[n]:
            n += 1
        raise Untranslatable(f"{what}: statement sequence differs from the expected template "
                             f"(first literal part agrees for {n} chars; source there: {sq[max(0,n-30):n+50]!r})")
    return m.groupdict()


# --------------------------------------------------------------------------- if/return chains

def split_statements(body):
    """very small statement splitter for bodies made of declarations, `if(..) return x;`
    (optionally braced, optionally preceded by else), `else { return x; }`, `return x;`"""
    s = body.strip()
    out = []
    pos = 0
    n = len(s)

    def skip_ws(i):
        while i < n and s[i].isspace():
            i += 1
        return i

    def paren(i):
        assert s[i] == "("
        d, j = 0, i
        while j < n:
            if s[j] == "(":
                d += 1
            elif s[j] == ")":
                d -= 1
                if d == 0:
                    return s[i + 1:j], j + 1
            j += 1
        raise Untranslatable("unbalanced parenthesis in " + s[i:i + 40])

    def ret(i):
        """parse `return e;` or `{ return e; }` at i"""
        i = skip_ws(i)
        braced = False
        if s[i] == "{":
            braced = True
            i = skip_ws(i + 1)
        m = re.match(r"return\b([^;]*);", s[i:])
        if not m:
            raise Untranslatable("expected return at " + s[i:i + 40])
        i += m.end()
        if braced:
            i = skip_ws(i)
            if s[i] != "}":
                raise Untranslatable("expected } at " + s[i:i + 40])
            i += 1
        return m.group(1).strip(), i

    pos = skip_ws(0)
    while pos < n:
        m = re.match(r"else\b", s[pos:])
        had_else = False
        if m:
            had_else = True
            pos = skip_ws(pos + m.end())
        if re.match(r"if\b", s[pos:]):
            pos = skip_ws(pos + 2)
            cond, pos = paren(pos)
            val, pos = ret(pos)
            out.append(("if", cond, val))
        elif re.match(r"return\b", s[pos:]) or (had_else and s[pos] == "{"):
            val, pos = ret(pos)
            out.append(("ret", None, val))
        else:
            m = re.match(r"unsigned\s+char\s+(\w+)\s*=\s*(\w+)\s*;", s[pos:])
            if not m or had_else:
                raise Untranslatable("statement not understood: " + s[pos:pos + 50])
            out.append(("decl", m.group(1), m.group(2)))
            pos += m.end()
        pos = skip_ws(pos)
    return out


def if_chain(what, body, kind, funcs=None):
    """kind 'bool': returns true/false/expression ; 'optnat': returns n or -1 (-> none)"""
    st = split_statements(body)
    rename = {}
    chain = ""
    closed = False
    for k, a, b in st:
        if closed:
            raise Untranslatable(what + ": statement after final return")
        if k == "decl":
            rename[b] = a          # `unsigned char c = ci;` : the model passes a byte value already
            continue

        def val(v):
            v = v.strip()
            if kind == "bool":
                if v in ("true", "false"):
                    return v
                return c_to_lean(v, funcs=funcs)
            if kind == "nat":
                if re.fullmatch(r"\d+", v):
                    return v
                raise Untranslatable(f"{what}: return value {v!r}")
            if re.fullmatch(r"-\s*1", v):
                return "none"
            if re.fullmatch(r"\d+", v):
                return f"some {v}"
            raise Untranslatable(f"{what}: return value {v!r}")
        if k == "if":
            chain += f"if {c_to_lean(a, funcs=funcs)} then {val(b)} else "
        else:
            chain += val(b)
            closed = True
    if not closed:
        raise Untranslatable(what + ": no final return")
    # a declaration `unsigned char c=ci` renames the parameter: report the *local* name as parameter
    return chain, rename


# ------------------------------------------------------------------------------- decoders

NEXT_TEMPLATE_CMS = (
    "usingutf::illegal;if(p==e)returnillegal;unsignedcharlead=*p++;inttrail_size=trail_length(lead);"
    "if(trail_size<0)returnillegal;"
    "if(trail_size==0){if(«ascii»)returnlead;returnillegal;}"
    "uint32_tc=«mask»;unsignedchartmp;switch(trail_size){"
    "case3:if(p==e)returnillegal;tmp=*p++;if(«bad3»)returnillegal;c=«push3»;"
    "case2:if(p==e)returnillegal;tmp=*p++;if(«bad2»)returnillegal;c=«push2»;"
    "case1:if(p==e)returnillegal;tmp=*p++;if(«bad1»)returnillegal;c=«push1»;}"
    "if(«invalid»)returnillegal;if(«notshortest»)returnillegal;if(«htmlmulti»)returnillegal;returnc;")

NEXT_TEMPLATE_BOOSTER = (
    "if(p==e)returnincomplete;unsignedcharlead=*p++;inttrail_size=trail_length(lead);"
    "if(trail_size<0)returnillegal;"
    "if(trail_size==0)returnlead;"
    "code_pointc=«mask»;unsignedchartmp;switch(trail_size){"
    "case3:if(p==e)returnincomplete;tmp=*p++;if(«bad3»)returnillegal;c=«push3»;"
    "case2:if(p==e)returnincomplete;tmp=*p++;if(«bad2»)returnillegal;c=«push2»;"
    "case1:if(p==e)returnincomplete;tmp=*p++;if(«bad1»)returnillegal;c=«push1»;}"
    "if(«invalid»)returnillegal;if(«notshortest»)returnillegal;returnc;")


def emit_decoder(w, ns, src_name, helpers, next_body, template, html):
    """helpers: dict lean name -> (c body, kind, param name in C)"""
    w(f"namespace {ns}\n")
    fn = {}
    for lname, (cname, body, kind, param) in helpers.items():
        chain, rename = if_chain(f"{src_name}:{cname}", body, kind)
        p = rename.get(param, param)
        ty = {"bool": "Bool", "nat": "Nat", "optnat": "Option Nat"}[kind]
        w(f"/-- `{cname}` of {src_name} -/")
        w(f"def {lname} ({p} : Nat) : {ty} := {chain}")
        fn[cname] = lname
    w("")
    h = template_match(f"{src_name}: next/decode body", next_body, template)
    F = {"is_trail": "isTrail", "utf::valid": "validCp", "is_valid_codepoint": "validCp", "width": "width"}
    if html:
        w("/-- condition under which a single byte (`trail_size == 0`) is returned rather than `illegal` -/")
        w(f"def asciiOk (html : Bool) (lead : Nat) : Bool := {c_to_lean(h['ascii'], funcs=F)}")
    w("/-- initial accumulator: `lead & ((1<<(6-trail_size))-1)` -/")
    w(f"def leadMask (lead trail_size : Nat) : Nat := {c_to_lean(h['mask'], funcs=F)}")
    for k in (3, 2, 1):
        w(f"/-- `case {k}:` arm of the fall-through switch: reject condition and new accumulator -/")
        w(f"def bad{k} (tmp : Nat) : Bool := {c_to_lean(h['bad%d' % k], funcs=F)}")
        w(f"def push{k} (c tmp : Nat) : Nat := {c_to_lean(h['push%d' % k], funcs=F)}")
    w("/-- the checks after the switch, each `-> illegal` when true -/")
    w(f"def invalidCp (c : Nat) : Bool := {c_to_lean(h['invalid'], funcs=F)}")
    w(f"def notShortest (c trail_size : Nat) : Bool := {c_to_lean(h['notshortest'], funcs=F)}")
    if html:
        w(f"def htmlMulti (html : Bool) (c : Nat) : Bool := {c_to_lean(h['htmlmulti'], funcs=F)}")
    w(f"\nend {ns}\n")


def strip_likely(src):
    """BOOSTER_LOCALE_LIKELY(x) / _UNLIKELY(x) are `__builtin_expect((x),k)`: replace the call by x
    (kept in parentheses unless the call is itself the whole content of a parenthesis)."""
    if not re.search(r"define\s+BOOSTER_LOCALE_LIKELY\(x\)\s+__builtin_expect\(\(x\),1\)", src) or \
       not re.search(r"define\s+BOOSTER_LOCALE_UNLIKELY\(x\)\s+__builtin_expect\(\(x\),0\)", src):
        raise Untranslatable("BOOSTER_LOCALE_LIKELY/UNLIKELY are no longer plain __builtin_expect wrappers")
    out, i = [], 0
    rx = re.compile(r"BOOSTER_LOCALE_(?:UN)?LIKELY\s*\(")
    while True:
        m = rx.search(src, i)
        if not m:
            out.append(src[i:])
            break
        if src[max(0, m.start() - 8):m.start()].rstrip().endswith("define"):
            out.append(src[i:m.end()]); i = m.end(); continue
        j, d = m.end() - 1, 0
        while True:
            if src[j] == "(":
                d += 1
            elif src[j] == ")":
                d -= 1
                if d == 0:
                    break
            j += 1
        inner = src[m.end():j]
        before = src[i:m.start()]
        whole = before.rstrip().endswith("(") and src[j + 1:].lstrip().startswith(")")
        out.append(before + (inner if whole else "(" + inner + ")"))
        i = j + 1
    return "".join(out)


def find_fn(src, header_re, what):
    try:
        return function_body(src, header_re)
    except Untranslatable:
        raise Untranslatable("function not found: " + what)


# --------------------------------------------------------------------- single-byte validators

SB_PREFIX = "while(p!=e){count++;unsignedc=(unsignedchar)*p++;if("
SB_MID = ")continue;"
SB_SUFFIX = "}returntrue;"


def single_byte_pred(name, body):
    """body of a `*_valid` template -> Lean Bool expression over c (true = byte accepted)"""
    sq = squash(body)
    if not (sq.startswith(SB_PREFIX) and sq.endswith(SB_SUFFIX)):
        raise Untranslatable(f"{name}: loop shape (expected while(p!=e){{count++; unsigned c=(unsigned char)*p++; ...}} return true;)")
    rest = sq[len(SB_PREFIX):-len(SB_SUFFIX)]
    i = rest.find(SB_MID)
    if i < 0:
        raise Untranslatable(f"{name}: no `continue` for the allowed control characters")
    cont = rest[:i]
    rest = rest[i + len(SB_MID):]
    chain = f"if {c_to_lean(cont)} then true else "
    while rest:
        m = re.match(r"if\(", rest)
        if m:
            # balanced condition
            d, j = 0, 2
            while True:
                if rest[j] == "(":
                    d += 1
                elif rest[j] == ")":
                    d -= 1
                    if d == 0:
                        break
                j += 1
            cond = rest[3:j]
            tail = rest[j + 1:]
            m2 = re.match(r"\{returnfalse;\}|returnfalse;", tail)
            if not m2:
                raise Untranslatable(f"{name}: if without `return false`")
            chain += f"if {c_to_lean(cond)} then false else "
            rest = tail[m2.end():]
            continue
        m = re.match(r"switch\(c\)\{((?:case[^:;{}]+:)+)returnfalse;\}", rest)
        if m:
            labels = re.findall(r"case([^:;{}]+):", m.group(1))
            vals = []
            for l in labels:
                if not re.fullmatch(r"0[xX][0-9a-fA-F]+|\d+", l):
                    raise Untranslatable(f"{name}: case label {l}")
                vals.append(int(l, 0) if not l.lower().startswith("0x") else int(l, 16))
            chain += f"if ({lean_bytes(vals)} : List Nat).contains c then false else "
            rest = rest[m.end():]
            continue
        raise Untranslatable(f"{name}: statement not understood at {rest[:50]!r}")
    return chain + "true"


def lean_ident(cname):
    parts = cname.split("_")
    return parts[0] + "".join(p.capitalize() for p in parts[1:])


def main(repo, lean):
    rd = lambda p: strip_c_comments(open(os.path.join(repo, p)).read())
    uti = rd("private/utf_iterator.h")
    bst = rd("booster/booster/locale/utf.h")
    bst = strip_likely(bst)
    val = rd("private/encoding_validators.h")
    enc = rd("src/encoding.cpp")
    o = []
    w = o.append
    w("/- GENERATED by translate/c14.py from private/utf_iterator.h, booster/booster/locale/utf.h, "
      "private/encoding_validators.h, src/encoding.cpp. Do not edit. -/")
    w("set_option linter.unusedVariables false\nnamespace Cppcms.C14.Gen\n")

    # ---------------- cppcms::utf8::next
    if not re.search(r"static\s+const\s+uint32_t\s+illegal\s*=\s*0xFFFFFFFFu\s*;", uti):
        raise Untranslatable("utf::illegal constant")
    helpers = {
        "validCp": ("utf::valid", find_fn(uti, r"inline\s+bool\s+valid\s*\(\s*uint32_t\s+v\s*\)\s*\{", "utf::valid"), "bool", "v"),
        "isTrail": ("is_trail", find_fn(uti, r"inline\s+bool\s+is_trail\s*\(\s*char\s+ci\s*\)\s*\{", "utf8::is_trail"), "bool", "ci"),
        "trailLength": ("trail_length", find_fn(uti, r"inline\s+int\s+trail_length\s*\(\s*unsigned\s+char\s+c\s*\)\s*\{", "utf8::trail_length"), "optnat", "c"),
        "width": ("width", find_fn(uti, r"inline\s+int\s+width\s*\(\s*uint32_t\s+value\s*\)\s*\{", "utf8::width"), "nat", "value"),
    }
    # width lives in namespace utf8; the utf16 one comes later in the file and function_body takes the first
    first_width = re.search(r"inline\s+int\s+width\s*\(", uti)
    ns16 = re.search(r"namespace\s+utf16", uti)
    if not first_width or not ns16 or first_width.start() > ns16.start():
        raise Untranslatable("utf8::width is no longer the first width() in utf_iterator.h")
    nb = find_fn(uti, r"uint32_t\s+next\s*\(\s*Iterator\s*&\s*p\s*,\s*Iterator\s+e\s*,\s*bool\s+html\s*=\s*false\s*,\s*bool\s*=\s*false\s*\)\s*\{", "utf8::next")
    emit_decoder(w, "Cms", "private/utf_iterator.h", helpers, nb, NEXT_TEMPLATE_CMS, html=True)

    # validate loops (shape only) and utf8_valid's html flag
    vb = find_fn(uti, r"bool\s+validate\s*\(\s*Iterator\s+p\s*,\s*Iterator\s+e\s*,\s*size_t\s*&\s*count\s*,\s*bool\s+html\s*=\s*false\s*\)\s*\{", "utf8::validate(count)")
    if squash(vb) != "while(p!=e){if(next(p,e,html)==utf::illegal)returnfalse;count++;}returntrue;":
        raise Untranslatable("utf8::validate(p,e,count,html): loop shape")
    vb2 = find_fn(uti, r"bool\s+validate\s*\(\s*Iterator\s+p\s*,\s*Iterator\s+e\s*,\s*bool\s+html\s*=\s*false\s*\)\s*\{", "utf8::validate")
    if squash(vb2) != "while(p!=e)if(next(p,e,html)==utf::illegal)returnfalse;returntrue;":
        raise Untranslatable("utf8::validate(p,e,html): loop shape")
    ub = find_fn(val, r"bool\s+utf8_valid\s*\(\s*Iterator\s+p\s*,\s*Iterator\s+e\s*,\s*size_t\s*&\s*count\s*\)\s*\{", "utf8_valid")
    h = template_match("utf8_valid", ub, "returnutf8::validate(p,e,count,«html»);")
    if h["html"] not in ("true", "false"):
        raise Untranslatable("utf8_valid: html argument")
    w("/-- `utf8_valid` = `utf8::validate(p,e,count,<this>)` -/")
    w(f"def utf8ValidHtml : Bool := {h['html']}\n")

    # ---------------- booster utf_traits<char,1>
    m = re.search(r"struct\s+utf_traits\s*<\s*CharType\s*,\s*1\s*>\s*\{", bst)
    m2 = re.search(r"struct\s+utf_traits\s*<\s*CharType\s*,\s*2\s*>\s*\{", bst)
    if not m or not m2:
        raise Untranslatable("booster utf_traits<CharType,1> specialisation")
    b8 = bst[m.start():m2.start()]
    if not re.search(r"static\s+const\s+code_point\s+illegal\s*=\s*0xFFFFFFFFu\s*;", bst) or \
       not re.search(r"static\s+const\s+code_point\s+incomplete\s*=\s*0xFFFFFFFEu\s*;", bst):
        raise Untranslatable("booster illegal/incomplete constants")
    helpers = {
        "validCp": ("is_valid_codepoint", find_fn(bst, r"inline\s+bool\s+is_valid_codepoint\s*\(\s*code_point\s+v\s*\)\s*\{", "is_valid_codepoint"), "bool", "v"),
        "isTrail": ("is_trail", find_fn(b8, r"static\s+bool\s+is_trail\s*\(\s*char_type\s+ci\s*\)\s*\{", "utf_traits::is_trail"), "bool", "ci"),
        "trailLength": ("trail_length", find_fn(b8, r"static\s+int\s+trail_length\s*\(\s*char_type\s+ci\s*\)\s*\{", "utf_traits::trail_length"), "optnat", "ci"),
        "width": ("width", find_fn(b8, r"static\s+int\s+width\s*\(\s*code_point\s+value\s*\)\s*\{", "utf_traits::width"), "nat", "value"),
    }
    db = find_fn(b8, r"static\s+code_point\s+decode\s*\(\s*Iterator\s*&\s*p\s*,\s*Iterator\s+e\s*\)\s*\{", "utf_traits::decode")
    emit_decoder(w, "Boost", "booster/booster/locale/utf.h", helpers, db, NEXT_TEMPLATE_BOOSTER, html=False)


    # ---------------- booster utf_traits<CharType,1>::encode, utf_traits<CharType,4>, conv::utf_to_utf
    eb = find_fn(b8, r"static\s+Iterator\s+encode\s*\(\s*code_point\s+value\s*,\s*Iterator\s+out\s*\)\s*\{", "utf_traits<char>::encode")
    put = lambda k: "*out++=static_cast<char_type>(«%s»);" % k
    h = template_match("utf_traits<char>::encode", eb,
                       "if(«c1»){" + put("e11") + "}elseif(«c2»){" + put("e21") + put("e22") + "}elseif(«c3»){" + put("e31") + put("e32") + put("e33") +
                       "}else{" + put("e41") + put("e42") + put("e43") + put("e44") + "}returnout;")
    w("namespace Boost")
    w("/-- `utf_traits<char>::encode`: branch conditions and the value each `*out++ = static_cast<char_type>(…)` stores (before the cast to `char`) -/")
    for k in ("c1", "c2", "c3"):
        w(f"def enc{k.upper()} (value : Nat) : Bool := {c_to_lean(h[k])}")
    for k in ("e11", "e21", "e22", "e31", "e32", "e33", "e41", "e42", "e43", "e44"):
        w(f"def enc{k.upper()} (value : Nat) : Nat := {c_to_lean(h[k])}")
    w("end Boost\n")
    m4 = re.search(r"struct\s+utf_traits\s*<\s*CharType\s*,\s*4\s*>\s*\{", bst)
    if not m4:
        raise Untranslatable("booster utf_traits<CharType,4> specialisation")
    b32 = bst[m4.start():]
    d32 = find_fn(b32, r"static\s+code_point\s+decode\s*\(\s*It\s*&\s*current\s*,\s*It\s+last\s*\)\s*\{", "utf_traits<wchar_t>::decode")
    h = template_match("utf_traits<CharType,4>::decode", d32,
                       "if(current==last)returnbooster::locale::utf::incomplete;code_pointc=*current++;if(«bad»)returnbooster::locale::utf::illegal;returnc;")
    w("/-- UTF-32 `decode`: reject condition -/")
    w(f"def utf32Bad (c : Nat) : Bool := {c_to_lean(h['bad'], funcs={'is_valid_codepoint': 'Boost.validCp'})}")
    e32 = find_fn(b32, r"static\s+It\s+encode\s*\(\s*code_point\s+u\s*,\s*It\s+out\s*\)\s*\{", "utf_traits<wchar_t>::encode")
    if squash(e32) != "*out++=static_cast<char_type>(u);returnout;":
        raise Untranslatable("utf_traits<CharType,4>::encode: shape")
    mi = re.search(r"static\s+const\s+code_point\s+illegal\s*=\s*(0x[0-9A-Fa-f]+)u\s*;", bst)
    mc = re.search(r"static\s+const\s+code_point\s+incomplete\s*=\s*(0x[0-9A-Fa-f]+)u\s*;", bst)
    w(f"def boostIllegal : Nat := {int(mi.group(1), 16)}")
    w(f"def boostIncomplete : Nat := {int(mc.group(1), 16)}")
    eu = rd("booster/booster/locale/encoding_utf.h")
    ee = rd("booster/booster/locale/encoding_errors.h")
    me = re.search(r"typedef\s+enum\s*\{\s*skip\s*=\s*(\d+)\s*,\s*stop\s*=\s*(\d+)\s*,\s*default_method\s*=\s*(\w+)\s*\}\s*method_type\s*;", ee)
    if not me:
        raise Untranslatable("conv::method_type enum")
    meth = {"skip": me.group(1), "stop": me.group(2)}
    ub = find_fn(eu, r"utf_to_utf\s*\(\s*CharIn\s+const\s*\*\s*begin\s*,\s*CharIn\s+const\s*\*\s*end\s*,\s*method_type\s+how\s*=\s*default_method\s*\)\s*\{", "conv::utf_to_utf(begin,end,how)")
    h = template_match("conv::utf_to_utf", ub,
                       "std::basic_string<CharOut>result;result.reserve(end-begin);typedefstd::back_insert_iterator<std::basic_string<CharOut>>inserter_type;"
                       "inserter_typeinserter(result);utf::code_pointc;while(begin!=end){c=utf::utf_traits<CharIn>::templatedecode<CharInconst*>(begin,end);"
                       "if(«err»){if(«throws»)throwconversion_error();}else{utf::utf_traits<CharOut>::templateencode<inserter_type>(c,inserter);}}returnresult;")
    ren = {"utf::illegal": "boostIllegal", "utf::incomplete": "boostIncomplete", "stop": meth["stop"], "skip": meth["skip"]}
    w("/-- `conv::utf_to_utf`: when the decoder's return value is treated as an error, and when that throws -/")
    w(f"def u2uIsError (c : Nat) : Bool := {c_to_lean(h['err'], rename=ren)}")
    w(f"def u2uThrows (how : Nat) : Bool := {c_to_lean(h['throws'], rename=ren)}")
    w(f"def methodSkip : Nat := {meth['skip']}")
    w(f"def methodStop : Nat := {meth['stop']}")
    for sig, what in ((r"utf_to_utf\s*\(\s*std::basic_string<CharIn>\s+const\s*&\s*str\s*,\s*method_type\s+how\s*=\s*default_method\s*\)\s*\{", "utf_to_utf(std::basic_string)"),):
        sb_ = find_fn(eu, sig, what)
        if squash(sb_) != "returnutf_to_utf<CharOut,CharIn>(str.c_str(),str.c_str()+str.size(),how);":
            raise Untranslatable(what + ": shape")
    w("")
    # ---------------- single-byte validators
    fns = re.findall(r"template\s*<\s*typename\s+Iterator\s*>\s*bool\s+(\w+)\s*\(\s*Iterator\s+p\s*,\s*Iterator\s+e\s*,\s*size_t\s*&\s*count\s*\)\s*\{", val)
    if "utf8_valid" not in fns or len(fns) < 2:
        raise Untranslatable("encoding_validators.h: validator templates")
    if len(fns) != len(re.findall(r"\bbool\s+\w+_valid\s*\(", val)):
        raise Untranslatable("encoding_validators.h: a *_valid function with an unexpected signature")
    sb = [f for f in fns if f != "utf8_valid"]
    w("/-! single-byte validators: `true` = the byte is accepted by one iteration of the loop -/")
    for f in sb:
        body = find_fn(val, r"bool\s+" + f + r"\s*\(\s*Iterator\s+p\s*,\s*Iterator\s+e\s*,\s*size_t\s*&\s*count\s*\)\s*\{", f)
        w(f"def {lean_ident(f)} (c : Nat) : Bool := {single_byte_pred(f, body)}")
    w("")
    w("/-- all single-byte predicates, in source order, with the C++ template's name -/")
    w("def sbPreds : List (String × (Nat → Bool)) := [" + ", ".join(f'("{f}", {lean_ident(f)})' for f in sb) + "]\n")

    # ---------------- name -> validator map
    cb = find_fn(enc, r"validators_set\s*\(\s*\)\s*\{", "validators_set constructor")
    stmts = [s for s in squash(cb).split(";") if s]
    var = {}
    table = []   # (name bytes, validator name) in assignment order
    for s in stmts:
        m = re.fullmatch(r"encoding_tester_type(\w+)=&(\w+)<charconst\*>", s)
        if m:
            var[m.group(1)] = m.group(2)
            continue
        m = re.fullmatch(r"((?:predefined_\[\"[^\"]*\"\]=)+)(&(\w+)<charconst\*>|(\w+))", s)
        if not m:
            raise Untranslatable("validators_set(): statement " + s[:60])
        target = m.group(3) or var.get(m.group(4))
        if target is None or target not in fns:
            raise Untranslatable("validators_set(): unknown validator in " + s[:60])
        keys = re.findall(r"predefined_\[\"([^\"]*)\"\]=", m.group(1))
        for k in reversed(keys):    # a = b = f : b is assigned first
            table.append((c_string_bytes(k), target))
    if not table:
        raise Untranslatable("validators_set(): empty table")
    w("/-- `predefined_[name] = tester` in execution order: (name bytes, \"utf8\" or index into `sbPreds`) -/")
    w("def nameTable : List (List Nat × Option Nat) := [" +
      ", ".join(f"({lean_bytes(k)}, {'none' if t == 'utf8_valid' else 'some ' + str(sb.index(t))})" for k, t in table) + "]\n")
    w("/-- same, human readable (not used by the model) -/")
    w("def nameTableDoc : List (String × String) := [" +
      ", ".join('("' + "".join(chr(b) for b in k) + f'", "{t}")' for k, t in table if all(32 <= b < 127 and b not in (34, 92) for b in k)) + "]\n")

    # encodings_comparator::next character classes
    nb = find_fn(enc, r"static\s+char\s+next\s*\(\s*char\s+const\s*\*\s*&\s*p\s*\)\s*\{", "encodings_comparator::next")
    h = template_match("encodings_comparator::next", nb,
                       "while(*p!=0){charc=*p++;if(«digit»)returnc;if(«lower»)returnc;elseif(«upper»)returnchar(«tolower»);}return0;")
    w("/-- character classes of `encodings_comparator::next` (all other bytes are skipped) -/")
    w(f"def cmpDigit (c : Nat) : Bool := {c_to_lean(h['digit'])}")
    w(f"def cmpLower (c : Nat) : Bool := {c_to_lean(h['lower'])}")
    w(f"def cmpUpper (c : Nat) : Bool := {c_to_lean(h['upper'])}")
    w(f"def cmpToLower (c : Nat) : Nat := {c_to_lean(h['tolower'])}\n")
    cmpb = find_fn(enc, r"bool\s+operator\s*\(\s*\)\s*\(\s*char\s+const\s*\*\s*lp\s*,\s*char\s+const\s*\*\s*rp\s*\)\s*const\s*\{", "encodings_comparator::operator()")
    if squash(cmpb) != "for(;;){charleft=next(lp);charright=next(rp);if(left<right)returntrue;if(left>right)returnfalse;if(left==right){if(left==0)returnfalse;}}":
        raise Untranslatable("encodings_comparator::operator(): shape")
    gb = find_fn(enc, r"encoding_tester_type\s+get\s*\(\s*std::string\s+const\s*&\s*name\s*\)\s*const\s*\{", "validators_set::get")
    if squash(gb) != "predefined_type::const_iteratorp=predefined_.find(name);if(p==predefined_.end())return0;returnp->second;":
        raise Untranslatable("validators_set::get: shape")
    if not re.search(r"typedef\s+std::map\s*<\s*std::string\s*,\s*encoding_tester_type\s*,\s*encodings_comparator\s*>\s*predefined_type\s*;", enc):
        raise Untranslatable("predefined_type is no longer a std::map keyed with encodings_comparator")
    ib = find_fn(enc, r"inline\s+bool\s+is_utf8\s*\(\s*char\s+const\s*\*\s*c_encoding\s*\)\s*\{", "is_utf8")
    h = template_match("is_utf8", ib, "impl::encodings_comparatorcmp;return!cmp(c_encoding,\"«a»\")&&!cmp(\"«b»\",c_encoding);")
    if h["a"] != h["b"]:
        raise Untranslatable("is_utf8: the two literals differ")
    w("/-- the literal `is_utf8` compares the encoding name with -/")
    w(f"def utf8Name : List Nat := {lean_bytes(c_string_bytes(h['a']))}\n")

    # ---------------- filters
    fb = find_fn(enc, r"bool\s+validate_or_filter_utf8\s*\(\s*char\s+const\s*\*\s*begin\s*,\s*char\s+const\s*\*\s*end\s*,\s*std::string\s*&\s*output\s*,\s*char\s+replace\s*\)\s*\{", "validate_or_filter_utf8")
    h = template_match("validate_or_filter_utf8", fb,
        "boolvalid=true;charconst*ptr=begin;charconst*prev=ptr;"
        "while(ptr<end){prev=ptr;if(utf8::next(ptr,end,«h1»,false)==utf::illegal){valid=false;break;}}"
        "if(valid)returntrue;output.clear();output.reserve(end-begin);output.append(begin,prev);ptr=prev;"
        "while(ptr<end){prev=ptr;if(utf8::next(ptr,end,«h2»,false)!=utf::illegal){output.append(prev,ptr);continue;}"
        "ptr=prev;if(utf8::next(ptr,end,«h3»,false)==utf::illegal){if(replace)output+=replace;ptr=prev+1;}"
        "else{if(replace)output+=replace;}}returnfalse;")
    for k in ("h1", "h2", "h3"):
        if h[k] not in ("true", "false"):
            raise Untranslatable("validate_or_filter_utf8: html flag " + h[k])
    w("/-- `html` flags of the three `utf8::next` calls in `validate_or_filter_utf8` (scan, keep, retry) -/")
    w(f"def filterScanHtml : Bool := {h['h1']}")
    w(f"def filterKeepHtml : Bool := {h['h2']}")
    w(f"def filterRetryHtml : Bool := {h['h3']}\n")
    sbf = find_fn(enc, r"bool\s+validate_or_filter_single_byte_charset\s*\(", "validate_or_filter_single_byte_charset")
    if squash(sbf) != ("size_tcount=0;if(tester(begin,end,count))returntrue;output.clear();output.reserve(end-begin);"
                       "for(charconst*p=begin;p<end;p++){size_tn=0;charconst*ptr=p;if(tester(ptr,ptr+1,n))output+=*p;elseif(repl)output+=repl;}returnfalse;"):
        raise Untranslatable("validate_or_filter_single_byte_charset: shape")
    vf = find_fn(enc, r"bool\s+CPPCMS_API\s+validate_or_filter\s*\(", "validate_or_filter")
    if not squash(vf).startswith("if(is_utf8(encoding.c_str()))returnvalidate_or_filter_utf8(begin,end,output,replace);"
                                 "impl::validators_set::encoding_tester_typetester=impl::all_validators.get(encoding);"
                                 "if(tester)returnvalidate_or_filter_single_byte_charset(tester,begin,end,output,replace);"):
        raise Untranslatable("validate_or_filter: dispatch shape")
    vs = find_fn(enc, r"bool\s+CPPCMS_API\s+valid\s*\(\s*std::string\s+const\s*&\s*encoding\s*,", "valid(std::string const&,...)")
    if not squash(vs).startswith("impl::validators_set::encoding_tester_typetester=impl::all_validators.get(encoding);if(tester)returntester(begin,end,count);"):
        raise Untranslatable("valid(std::string): dispatch shape")
    v8 = find_fn(enc, r"bool\s+CPPCMS_API\s+valid_utf8\s*\(", "valid_utf8")
    if squash(v8) != "returnutf8_valid(begin,end,count);":
        raise Untranslatable("valid_utf8: shape")


    # ---------------- src/form.cpp: widgets::base_text (count of code points vs limits)
    fm = rd("src/form.cpp")
    mc_ = re.search(r"base_text::base_text\s*\(\s*\)\s*:\s*([^{}]*)\{\s*\}", fm)
    if not mc_:
        raise Untranslatable("base_text::base_text(): initialiser list")
    inits = dict()
    for it in re.findall(r"(\w+)\s*\(\s*([^(),]*)\s*\)", mc_.group(1)):
        inits[it[0]] = it[1].strip()
    if set(inits) - {"low_", "high_", "validate_charset_", "code_points_"} or not {"low_", "high_", "validate_charset_"} <= set(inits):
        raise Untranslatable("base_text::base_text(): unexpected members in the initialiser list: " + ",".join(sorted(inits)))
    def intlit(v, what):
        if not re.fullmatch(r"-?\d+", v):
            raise Untranslatable(what + ": not an integer literal: " + v)
        return f"({v} : Int)"
    if inits["validate_charset_"] not in ("true", "false"):
        raise Untranslatable("base_text ctor: validate_charset_")
    w("namespace Form")
    w("/-- `size_t(x)` for an `int x` (64-bit `size_t`) -/")
    w("def toSizeT (x : Int) : Int := x % 18446744073709551616")
    w("/-- constructor initialiser list of `widgets::base_text`; `ctorCount = none`: `code_points_` is left uninitialised -/")
    w(f"def ctorLow : Int := {intlit(inits['low_'], 'ctor low_')}")
    w(f"def ctorHigh : Int := {intlit(inits['high_'], 'ctor high_')}")
    w(f"def ctorValidateCharset : Bool := {inits['validate_charset_']}")
    if "code_points_" in inits:
        if not re.fullmatch(r"\d+", inits["code_points_"]):
            raise Untranslatable("base_text ctor: code_points_ initialiser")
        w(f"def ctorCount : Option Nat := some {inits['code_points_']}")
    else:
        w("def ctorCount : Option Nat := none")
    lb = squash(find_fn(fm, r"void\s+base_text::load\s*\(\s*http::context\s*&\s*context\s*\)\s*\{", "base_text::load"))
    cut = "if(name().empty()){return;}"
    if lb.count(cut) != 1:
        raise Untranslatable("base_text::load: `if(name().empty()) return;` not found exactly once")
    prefix, rest = lb.split(cut)
    eff = {"pre_load(context)": "preload", "value_.clear()": "clear", "set(true)": "set1", "set(false)": "set0",
           "valid(true)": "valid1", "valid(false)": "valid0"}
    seen = []
    cnt_reset = None
    for st in [x for x in prefix.split(";") if x]:
        mm = re.fullmatch(r"code_points_=(\d+)", st)
        if mm:
            cnt_reset = int(mm.group(1))
        elif st in eff:
            seen.append(eff[st])
        else:
            raise Untranslatable("base_text::load: statement before the name test not understood: " + st)
    if "preload" not in seen or ("set1" in seen and "set0" in seen) or ("valid1" in seen and "valid0" in seen):
        raise Untranslatable("base_text::load: prefix statements")
    w("/-- straight-line part of `base_text::load` before the field is looked up: which members it assigns.")
    w("`none` = the member keeps whatever an earlier request left in it. -/")
    w(f"def loadClearsValue : Bool := {'true' if 'clear' in seen else 'false'}")
    w(f"def loadResetCount : Option Nat := {'none' if cnt_reset is None else 'some ' + str(cnt_reset)}")
    w("def loadMarksSet : Option Bool := " + ("some true" if "set1" in seen else "some false" if "set0" in seen else "none"))
    w("def loadMarksValid : Option Bool := " + ("some true" if "valid1" in seen else "some false" if "valid0" in seen else "none"))
    mr = re.fullmatch(re.escape("http::request::form_type::const_iteratorp;p=context.request().post_or_get().find(name());"
                                "if(p==context.request().post_or_get().end()){return;}value_=p->second;if(validate_charset_){") +
                      r"(?:code_points_=(\d+);)?" +
                      re.escape("if(!encoding::valid(context.locale(),value_.data(),value_.data()+value_.size(),code_points_))valid(false);}"
                                "else{code_points_=value_.size();}"), rest)
    if not mr:
        raise Untranslatable("base_text::load: part after the name test differs from the expected template: " + rest[:160])
    w("/-- value of `code_points_` handed to `encoding::valid` (which adds to it); `none` = not reassigned before the call -/")
    w("def loadCountBeforeValid : Option Nat := " + ("none" if mr.group(1) is None else "some " + mr.group(1)))
    vb = find_fn(fm, r"bool\s+base_text::validate\s*\(\s*\)\s*\{", "base_text::validate")
    vb = re.sub(r"-\s*1\b", "MINUS1", vb)
    h = template_match("base_text::validate", vb,
                       "if(!valid())returnfalse;if(«early»){valid(true);returntrue;}if(«oor»){valid(false);returnfalse;}returntrue;")
    ren = {"MINUS1": "(-1)"}
    F2 = {"set": "isSet", "size_t": "toSizeT"}
    w("/-- `base_text::validate`: the early-accept test and the out-of-limits test -/")
    w(f"def validateEarlyOk (isSet : Bool) (low_ high_ : Int) : Bool := {c_to_lean(h['early'], rename=dict(ren, **{'(isSet)': 'isSet'}), funcs=F2)}")
    w(f"def validateOutOfLimits (code_points_ low_ high_ : Int) : Bool := {c_to_lean(h['oor'], rename=ren, funcs=F2)}")
    for sig, body_expected, what in (
            (r"void\s+base_text::value\s*\(\s*std::string\s+v\s*\)\s*\{", "set(true);value_=v;", "base_text::value(std::string)"),
            (r"void\s+base_widget::clear\s*\(\s*\)\s*\{", "set(false);", "base_widget::clear"),
            (r"void\s+base_text::limits\s*\(\s*int\s+min\s*,\s*int\s+max\s*\)\s*\{", "low_=min;high_=max;", "base_text::limits(int,int)"),
            (r"void\s+base_text::validate_charset\s*\(\s*bool\s+v\s*\)\s*\{", "validate_charset_=v;", "base_text::validate_charset(bool)")):
        if squash(find_fn(fm, sig, what)) != body_expected:
            raise Untranslatable(what + ": shape")
    ne = squash(find_fn(fm, r"void\s+base_text::non_empty\s*\(\s*\)\s*\{", "base_text::non_empty"))
    mn = re.fullmatch(r"limits\((-?\d+),(-?\d+)\);", ne)
    if not mn:
        raise Untranslatable("base_text::non_empty: shape")
    w(f"def nonEmptyLow : Int := ({mn.group(1)} : Int)")
    w(f"def nonEmptyHigh : Int := ({mn.group(2)} : Int)")
    w("end Form\n")
    w("end Cppcms.C14.Gen")
    path = os.path.join(lean, "Cppcms", "C14", "Gen.lean")
    changed = write_if_changed(path, "\n".join(o) + "\n")
    print(("rewrote " if changed else "unchanged ") + path)


if __name__ == "__main__":
    try:
        main(sys.argv[1], sys.argv[2])
    except Untranslatable as e:
        print("UNTRANSLATABLE: " + str(e))
        sys.exit(2)
